#!/usr/bin/env bash
# Build the orchestrator and warm the build cache for the worker (normal and -race). Offline.
set -eu
here="$(cd "$(dirname "${BASH_SOURCE[0]}")" && pwd)"
export GOFLAGS=-mod=mod GOPROXY=off GOSUMDB=off GOTOOLCHAIN=local
mkdir -p "$here/.build/bin" "$here/replay" "$here/evidence"
cp -f /repo/go.sum "$here/mon/go.sum"
cd "$here/mon"
go build -o "$here/.build/bin/vcheck" ./cmd/vcheck
go build -o "$here/.build/bin/worker.warm" ./cmd/worker
go build -race -o "$here/.build/bin/worker.warm-race" ./cmd/worker
rm -f "$here/.build/bin/worker.warm" "$here/.build/bin/worker.warm-race"
echo "setup ok"
