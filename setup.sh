#!/usr/bin/env bash
# Build the orchestrator and warm the build cache for the worker (normal and -race). Offline.
set -eu
here="$(cd "$(dirname "${BASH_SOURCE[0]}")" && pwd)"
export GOFLAGS=-mod=mod GOPROXY=off GOSUMDB=off GOTOOLCHAIN=local
mkdir -p "$here/.build/bin" "$here/replay" "$here/evidence"
cp -f /repo/go.sum "$here/mon/go.sum"
cd "$here/mon"
go build -o "$here/.build/bin/vcheck" ./cmd/vcheck
# sanity tests of the harness' own reference models (recogniser, version order, renderer, matching model)
go test -count=1 ./internal/... >/dev/null 2>&1 || echo "warning: harness self-tests failed (non-fatal: they read the tables of the tree under check)"
go build -o "$here/.build/bin/worker.warm" ./cmd/worker
go build -race -o "$here/.build/bin/worker.warm-race" ./cmd/worker
rm -f "$here/.build/bin/worker.warm" "$here/.build/bin/worker.warm-race"
echo "setup ok"
