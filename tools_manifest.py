#!/usr/bin/env python3
"""Regenerates MANIFEST.json from the table below (single source of truth for check registration)."""
import json, sys

CHECKS = {
 # id: (technique, level text, level note, design ref)
}
BUILT = json.load(open('/verif/manifest_table.json'))
m = {
 "version": 1,
 "setup_cmd": "./setup.sh",
 "hooks": {
  "guard": "verif",
  "enable": "none: every monitor observes the exported API (and the exported tables) of the unmodified library; the worker is rebuilt from /repo's working tree through a go.mod replace on every check invocation",
  "baseline_off_cmd": "cd /repo && GOFLAGS=-mod=mod go test -vet=off -count=1 ./...",
  "source_commits": [],
  "add_only": True
 },
 "engines": [
  {"name": "vcheck+worker", "path": "mon/", "serves_properties": sorted(BUILT["checks"].keys()),
   "kind_free_text": "Go orchestrator (no dependency on the library) that rebuilds a worker binary against /repo, runs monitor children in separate processes, merges observed events, applies KNOWN_FINDINGS.txt, writes evidence and replay files"}
 ],
 "checks": [],
 "notes": BUILT.get("notes", ""),
 "not_applicable": BUILT.get("not_applicable", []),
}
for pid in sorted(BUILT["checks"].keys()):
    c = BUILT["checks"][pid]
    m["checks"].append({
        "property_id": pid,
        "quick_cmd": f"./check {pid} quick",
        "thorough_cmd": f"./check {pid} thorough",
        "evidence_file": f"/verif/evidence/{pid}.json",
        "replay_cmd_template": f"./check {pid} --replay {{path}}",
        "engine": "vcheck+worker",
        "level_claimed": {"category": "exploration", "text": c["text"], "design_ref": c.get("design_ref", f"DESIGN.md §4 {pid}")},
        "level_note": c["note"],
        "technique": c["technique"],
    })
json.dump(m, open('/verif/MANIFEST.json', 'w'), indent=1)
print("MANIFEST.json written:", len(m["checks"]), "checks,", len(m["not_applicable"]), "not applicable")
