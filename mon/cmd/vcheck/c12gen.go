package main

func checkGenerator(r *run) {}
