package main

import (
	"bytes"
	"encoding/json"
	"fmt"
	"os"
	"os/exec"
	"path/filepath"
	"regexp"
	"strings"
)

// checkGenerator re-runs the repository's own generator (cmd/) on scratch copies of the tree under check:
//
//  1. on the committed JSON: the three generated files must be reproduced byte for byte;
//  2. on perturbed JSON ("any future refresh or hand edit"): false flags omitted, entries re-ordered, new active /
//     deprecated / exception entries added, minimal entries placed after deprecated ones. The ids the generator emits are
//     compared with the lists the harness derives from the same JSON with its own per-entry decoding.
func checkGenerator(r *run) {
	scratch, err := os.MkdirTemp("", "verif-c12-")
	if err != nil {
		r.inconcl = append(r.inconcl, "cannot create scratch dir: "+err.Error())
		return
	}
	defer os.RemoveAll(scratch)
	cp := exec.Command("bash", "-c", fmt.Sprintf("cd %q && tar --exclude=.git -cf - . | tar -xf - -C %q", repoDir, scratch))
	if out, err := cp.CombinedOutput(); err != nil {
		r.inconcl = append(r.inconcl, "cannot copy the tree: "+err.Error()+" "+string(out))
		return
	}
	runGen := func() (string, error) {
		gen := exec.Command("go", "run", ".", "extract", "-l", "-e")
		gen.Dir = filepath.Join(scratch, "cmd")
		gen.Env = append(goEnv(), "GOFLAGS=-mod=mod")
		var buf bytes.Buffer
		gen.Stdout = &buf
		gen.Stderr = &buf
		err := gen.Run()
		return buf.String(), err
	}
	if out, err := runGen(); err != nil {
		r.addViolation("generator-fails", "C12.generator", "the generator (cd cmd && go run . extract -l -e) fails on the tree: "+trunc(out, 800), mustJSON(map[string]string{"kind": "generator"}), 1)
		return
	}
	r.evals++
	files := []string{"get_licenses.go", "get_deprecated.go", "get_exceptions.go"}
	for _, f := range files {
		rel := filepath.Join("spdxexp", "spdxlicenses", f)
		a, err1 := os.ReadFile(filepath.Join(repoDir, rel))
		b, err2 := os.ReadFile(filepath.Join(scratch, rel))
		if err1 != nil || err2 != nil {
			r.addViolation("generator-output-missing:"+f, "C12.generator", fmt.Sprintf("cannot read %s: %v %v", rel, err1, err2), mustJSON(map[string]string{"kind": "generator", "file": f}), 1)
			continue
		}
		r.counters["generator_files_compared"]++
		r.counters["generator_bytes_compared"] += int64(len(a))
		if !bytes.Equal(a, b) {
			la, lb := strings.Split(string(a), "\n"), strings.Split(string(b), "\n")
			diff := ""
			for i := 0; i < len(la) || i < len(lb); i++ {
				x, y := "", ""
				if i < len(la) {
					x = la[i]
				}
				if i < len(lb) {
					y = lb[i]
				}
				if x != y {
					diff = fmt.Sprintf("first difference at line %d: committed %q, regenerated %q", i+1, strings.TrimSpace(x), strings.TrimSpace(y))
					break
				}
			}
			r.addViolation("generator-diff:"+f, "C12.generator", fmt.Sprintf("re-running the generator does not reproduce %s byte for byte; %s", rel, diff), mustJSON(map[string]string{"kind": "generator", "file": f}), 1)
		}
	}

	// ---- perturbed JSON ---------------------------------------------------------------------
	var lic, exc map[string]any
	lb, err1 := os.ReadFile(filepath.Join(repoDir, "cmd", "licenses.json"))
	eb, err2 := os.ReadFile(filepath.Join(repoDir, "cmd", "exceptions.json"))
	if err1 != nil || err2 != nil || json.Unmarshal(lb, &lic) != nil || json.Unmarshal(eb, &exc) != nil {
		return // the worker's JSON monitor reports unreadable / undecodable source data
	}
	type variant struct {
		name  string
		apply func(l, e []any) ([]any, []any)
	}
	clone := func(entries []any) []any {
		out := make([]any, len(entries))
		for i, x := range entries {
			m := map[string]any{}
			for k, v := range x.(map[string]any) {
				m[k] = v
			}
			out[i] = m
		}
		return out
	}
	firstDeprecated := func(entries []any) int {
		for i, x := range entries {
			if d, _ := x.(map[string]any)["isDeprecatedLicenseId"].(bool); d {
				return i
			}
		}
		return -1
	}
	insertAfter := func(entries []any, at int, x any) []any {
		out := append([]any{}, entries[:at+1]...)
		out = append(out, x)
		return append(out, entries[at+1:]...)
	}
	variants := []variant{
		{"omit-false-flags", func(l, e []any) ([]any, []any) {
			for _, list := range [][]any{l, e} {
				for _, x := range list {
					m := x.(map[string]any)
					if d, ok := m["isDeprecatedLicenseId"].(bool); ok && !d {
						delete(m, "isDeprecatedLicenseId")
					}
				}
			}
			return l, e
		}},
		{"reversed-order", func(l, e []any) ([]any, []any) {
			for _, list := range [][]any{l, e} {
				for i, j := 0, len(list)-1; i < j; i, j = i+1, j-1 {
					list[i], list[j] = list[j], list[i]
				}
			}
			return l, e
		}},
		{"new-entries", func(l, e []any) ([]any, []any) {
			l = append(l, map[string]any{"licenseId": "Zz-Verif-New-1.0", "name": "new active", "isDeprecatedLicenseId": false, "referenceNumber": 9001, "seeAlso": []any{}, "isOsiApproved": false, "reference": "x", "detailsUrl": "y"})
			l = append(l, map[string]any{"licenseId": "Zz-Verif.New-1.0.1-with-a-very-long-name-that-is-longer-than-any-other-identifier-2026", "name": "long active", "isDeprecatedLicenseId": false, "referenceNumber": 9005, "seeAlso": []any{}, "isOsiApproved": false, "reference": "x", "detailsUrl": "y"})
			l = append(l, map[string]any{"licenseId": "zz-verif-lower-2", "name": "lower-case active", "isDeprecatedLicenseId": false, "referenceNumber": 9006, "seeAlso": []any{}, "isOsiApproved": false, "reference": "x", "detailsUrl": "y"})
			e = append(e, map[string]any{"licenseExceptionId": "Zz-Verif-new-exception-with-a-very-long-name-longer-than-every-license-id-on-any-list-2026.1", "name": "long exception", "isDeprecatedLicenseId": false, "referenceNumber": 9007, "seeAlso": []any{}, "reference": "x", "detailsUrl": "y"})
			l = append(l, map[string]any{"licenseId": "Zz-Verif-Old-1.0", "name": "new deprecated", "isDeprecatedLicenseId": true, "referenceNumber": 9002, "seeAlso": []any{}, "isOsiApproved": false, "reference": "x", "detailsUrl": "y"})
			e = append(e, map[string]any{"licenseExceptionId": "Zz-Verif-new-exception", "name": "new exception", "isDeprecatedLicenseId": false, "referenceNumber": 9003, "seeAlso": []any{}, "reference": "x", "detailsUrl": "y"})
			e = append(e, map[string]any{"licenseExceptionId": "Zz-Verif-old-exception", "name": "deprecated exception", "isDeprecatedLicenseId": true, "referenceNumber": 9004, "seeAlso": []any{}, "reference": "x", "detailsUrl": "y"})
			return l, e
		}},
		{"runs-of-deprecated-entries", func(l, e []any) ([]any, []any) {
			// two and three neighbouring entries become deprecated (at the start, in the middle, at the end)
			for _, list := range [][]any{l, e} {
				n := len(list)
				for _, at := range []int{0, 1, n / 2, n/2 + 1, n/2 + 2, n - 2, n - 1} {
					if at >= 0 && at < n {
						list[at].(map[string]any)["isDeprecatedLicenseId"] = true
					}
				}
			}
			return l, e
		}},
		{"minimal-entry-after-deprecated", func(l, e []any) ([]any, []any) {
			if at := firstDeprecated(l); at >= 0 {
				l = insertAfter(l, at, map[string]any{"licenseId": "Zz-Verif-Minimal-1.0", "name": "only id and name"})
			}
			if at := firstDeprecated(e); at >= 0 {
				e = insertAfter(e, at, map[string]any{"licenseExceptionId": "Zz-Verif-minimal-exception", "name": "only id and name"})
			} else {
				e = insertAfter(e, 0, map[string]any{"licenseExceptionId": "Zz-Verif-old2-exception", "name": "deprecated", "isDeprecatedLicenseId": true})
				e = insertAfter(e, 1, map[string]any{"licenseExceptionId": "Zz-Verif-minimal-exception", "name": "only id and name"})
			}
			return l, e
		}},
	}
	reEntry := regexp.MustCompile(`(?m)^\s*"([^"]*)",\s*$`)
	emitted := func(f string) ([]string, error) {
		b, err := os.ReadFile(filepath.Join(scratch, "spdxexp", "spdxlicenses", f))
		if err != nil {
			return nil, err
		}
		var ids []string
		for _, m := range reEntry.FindAllStringSubmatch(string(b), -1) {
			ids = append(ids, m[1])
		}
		return ids, nil
	}
	for _, v := range variants {
		ls, _ := lic["licenses"].([]any)
		es, _ := exc["exceptions"].([]any)
		if ls == nil || es == nil {
			return
		}
		l2, e2 := v.apply(clone(ls), clone(es))
		// expected lists: every entry decoded on its own, absent flag = not deprecated
		var wantAct, wantDep, wantExc []string
		for _, x := range l2 {
			m := x.(map[string]any)
			id, _ := m["licenseId"].(string)
			if d, _ := m["isDeprecatedLicenseId"].(bool); d {
				wantDep = append(wantDep, id)
			} else {
				wantAct = append(wantAct, id)
			}
		}
		for _, x := range e2 {
			m := x.(map[string]any)
			id, _ := m["licenseExceptionId"].(string)
			if d, _ := m["isDeprecatedLicenseId"].(bool); !d {
				wantExc = append(wantExc, id)
			}
		}
		lm := map[string]any{}
		for k, val := range lic {
			lm[k] = val
		}
		lm["licenses"] = l2
		em := map[string]any{}
		for k, val := range exc {
			em[k] = val
		}
		em["exceptions"] = e2
		lj, _ := json.MarshalIndent(lm, "", "  ")
		ej, _ := json.MarshalIndent(em, "", "  ")
		os.WriteFile(filepath.Join(scratch, "cmd", "licenses.json"), lj, 0o644)
		os.WriteFile(filepath.Join(scratch, "cmd", "exceptions.json"), ej, 0o644)
		out, err := runGen()
		r.evals++
		r.counters["generator_variants_run"]++
		if err != nil {
			r.addViolation("generator-variant-fails:"+v.name, "C12.generator", fmt.Sprintf("the generator fails on a well-formed JSON refresh (%s): %s", v.name, trunc(out, 600)), mustJSON(map[string]string{"kind": "generator-variant", "variant": v.name}), 1)
			continue
		}
		if v.name == "new-entries" {
			// the refreshed tables compiled into the library: every id of the refreshed lists must behave as C12 says
			refreshedLibrary(r, scratch)
		}
		for fi, want := range [][]string{wantAct, wantDep, wantExc} {
			got, err := emitted(files[fi])
			if err != nil {
				r.addViolation("generator-variant-output:"+v.name+":"+files[fi], "C12.generator", err.Error(), mustJSON(map[string]string{"kind": "generator-variant", "variant": v.name}), 1)
				continue
			}
			r.counters["generator_variant_ids_compared"] += int64(len(want))
			if strings.Join(got, "\n") != strings.Join(want, "\n") {
				gs, ws := map[string]bool{}, map[string]bool{}
				for _, x := range got {
					gs[x] = true
				}
				for _, x := range want {
					ws[x] = true
				}
				var missing, extra []string
				for _, x := range want {
					if !gs[x] && len(missing) < 5 {
						missing = append(missing, x)
					}
				}
				for _, x := range got {
					if !ws[x] && len(extra) < 5 {
						extra = append(extra, x)
					}
				}
				r.addViolation("generator-variant:"+v.name+":"+files[fi], "C12.generator",
					fmt.Sprintf("on a JSON refresh of kind %q the generator writes %d ids into %s where the JSON yields %d; missing e.g. %q, unexpected e.g. %q (same sets but another order if both are empty)", v.name, len(got), files[fi], len(want), missing, extra),
					mustJSON(map[string]string{"kind": "generator-variant", "variant": v.name, "file": files[fi]}), 1)
			}
		}
	}
}

// refreshedLibrary builds the worker against the scratch tree (whose tables were just regenerated from the perturbed
// JSON) and runs the table / behaviour monitors of C12 on it.
func refreshedLibrary(r *run, scratch string) {
	saved := repoDir
	repoDir = scratch
	defer func() { repoDir = saved }()
	dir := filepath.Join(r.dir, "refreshed")
	os.MkdirAll(dir, 0o755)
	bin, err := buildWorker(dir, false)
	if err != nil {
		r.addViolation("refreshed-tables-do-not-build", "C12.generator", "the library does not build with the tables regenerated from a refreshed JSON: "+trunc(err.Error(), 600), mustJSON(map[string]string{"kind": "generator-variant", "variant": "new-entries"}), 1)
		return
	}
	ph := phase{Name: "tables-refreshed", Shards: 1}
	kids := r.runPhase(&ph, bin)
	r.collect(kids)
	r.counters["refreshed_library_runs"]++
}
