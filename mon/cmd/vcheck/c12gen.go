package main

import (
	"bytes"
	"fmt"
	"os"
	"os/exec"
	"path/filepath"
	"strings"
)

// checkGenerator re-runs the repository's own generator (cmd/) on a scratch copy of the tree under
// check and compares the three generated files byte for byte with the committed ones.
func checkGenerator(r *run) {
	scratch, err := os.MkdirTemp("", "verif-c12-")
	if err != nil {
		r.inconcl = append(r.inconcl, "cannot create scratch dir: "+err.Error())
		return
	}
	defer os.RemoveAll(scratch)
	// copy the working tree without .git
	cp := exec.Command("bash", "-c", fmt.Sprintf("cd %q && tar --exclude=.git -cf - . | tar -xf - -C %q", repoDir, scratch))
	if out, err := cp.CombinedOutput(); err != nil {
		r.inconcl = append(r.inconcl, "cannot copy the tree: "+err.Error()+" "+string(out))
		return
	}
	gen := exec.Command("go", "run", ".", "extract", "-l", "-e")
	gen.Dir = filepath.Join(scratch, "cmd")
	gen.Env = append(goEnv(), "GOFLAGS=-mod=mod")
	var buf bytes.Buffer
	gen.Stdout = &buf
	gen.Stderr = &buf
	if err := gen.Run(); err != nil {
		r.addViolation("generator-fails", "C12.generator", "the generator (cd cmd && go run . extract -l -e) fails on the tree: "+trunc(buf.String(), 800), mustJSON(map[string]string{"kind": "generator"}), 1)
		return
	}
	r.evals++
	for _, f := range []string{"get_licenses.go", "get_deprecated.go", "get_exceptions.go"} {
		rel := filepath.Join("spdxexp", "spdxlicenses", f)
		a, err1 := os.ReadFile(filepath.Join(repoDir, rel))
		b, err2 := os.ReadFile(filepath.Join(scratch, rel))
		if err1 != nil || err2 != nil {
			r.addViolation("generator-output-missing:"+f, "C12.generator", fmt.Sprintf("cannot read %s: %v %v", rel, err1, err2), mustJSON(map[string]string{"kind": "generator", "file": f}), 1)
			continue
		}
		r.counters["generator_files_compared"]++
		r.counters["generator_bytes_compared"] += int64(len(a))
		if !bytes.Equal(a, b) {
			la, lb := strings.Split(string(a), "\n"), strings.Split(string(b), "\n")
			diff := ""
			for i := 0; i < len(la) || i < len(lb); i++ {
				x, y := "", ""
				if i < len(la) {
					x = la[i]
				}
				if i < len(lb) {
					y = lb[i]
				}
				if x != y {
					diff = fmt.Sprintf("first difference at line %d: committed %q, regenerated %q", i+1, strings.TrimSpace(x), strings.TrimSpace(y))
					break
				}
			}
			r.addViolation("generator-diff:"+f, "C12.generator", fmt.Sprintf("re-running the generator does not reproduce %s byte for byte; %s", rel, diff), mustJSON(map[string]string{"kind": "generator", "file": f}), 1)
		}
	}
}
