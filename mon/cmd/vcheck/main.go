// vcheck is the orchestrator: it rebuilds the worker against the tree under check, runs the
// monitor children, merges what they observed, applies KNOWN_FINDINGS.txt, writes the evidence
// file and replay files and prints the verdict lines. It does not import the library.
//
//	vcheck <Cnn> quick|thorough
//	vcheck <Cnn> --replay <file>
package main

import (
	"bufio"
	"bytes"
	"encoding/binary"
	"encoding/json"
	"fmt"
	"os"
	"os/exec"
	"path/filepath"
	"runtime"
	"sort"
	"strconv"
	"strings"
	"sync"
	"syscall"
	"time"

	"verif/mon/internal/ev"
)

var (
	verifDir = "/verif"
	repoDir  = "/repo"
	seed     = int64(1)
	jobs     = runtime.NumCPU()
)

type phase struct {
	Name    string
	Race    bool
	Shards  int
	Env     []string
	Args    []string      // extra worker args
	Timeout time.Duration // wall-clock watchdog (inconclusive when it fires)
	MemCap  uint64
	// Serial phases run their children one after another (measurements that must not compete).
	Serial bool
	// Strace wraps the child in strace and keeps its log.
	Strace bool
}

type child struct {
	phase    *phase
	shard    int
	exit     int
	signaled bool
	timedOut bool
	evFile   string
	jFile    string
	dFile    string
	stdout   string
	stderr   string
	straceF  string
	wall     time.Duration
}

type violation struct {
	Key    string
	Rule   string
	Detail string
	Case   json.RawMessage
	Count  int64
	Replay string
}

type run struct {
	prop, tier string
	dir        string
	start      time.Time

	evals     int64
	counters  map[string]int64
	samples   []json.RawMessage
	notes     []string
	floors    []ev.Event
	meta      *ev.Event
	viols     map[string]*violation
	violOrder []string
	inconcl   []string
	distinct  []uint64
	children  int
	extra     map[string]any
}

func main() {
	if v := os.Getenv("VERIF_DIR"); v != "" {
		verifDir = v
	}
	if v := os.Getenv("VERIF_REPO"); v != "" {
		repoDir = v
	}
	if v := os.Getenv("VERIF_SEED"); v != "" {
		if n, err := strconv.ParseInt(v, 10, 64); err == nil {
			seed = n
		}
	}
	if v := os.Getenv("VERIF_JOBS"); v != "" {
		if n, err := strconv.Atoi(v); err == nil && n > 0 {
			jobs = n
		}
	}
	if jobs > 16 {
		jobs = 16
	}
	if len(os.Args) < 3 {
		fmt.Fprintln(os.Stderr, "usage: vcheck <Cnn> quick|thorough | vcheck <Cnn> --replay <file>")
		os.Exit(2)
	}
	prop := os.Args[1]
	if os.Args[2] == "--replay" {
		if len(os.Args) < 4 {
			fmt.Fprintln(os.Stderr, "--replay needs a file")
			os.Exit(2)
		}
		os.Exit(doReplay(prop, os.Args[3]))
	}
	// the command's own argument names the tier; VERIF_TIER is only used when the argument is "auto"
	tier := os.Args[2]
	if v := os.Getenv("VERIF_TIER"); tier == "auto" && (v == "quick" || v == "thorough") {
		tier = v
	}
	if tier != "quick" && tier != "thorough" {
		fmt.Fprintln(os.Stderr, "tier must be quick or thorough")
		os.Exit(2)
	}
	os.Exit(doCheck(prop, tier))
}

func newRun(prop, tier string) *run {
	dir := filepath.Join(verifDir, ".build", "run", fmt.Sprintf("%s-%s-%d", prop, tier, os.Getpid()))
	os.RemoveAll(dir)
	if err := os.MkdirAll(dir, 0o755); err != nil {
		fmt.Fprintln(os.Stderr, err)
		os.Exit(2)
	}
	return &run{prop: prop, tier: tier, dir: dir, start: time.Now(), counters: map[string]int64{}, viols: map[string]*violation{}, extra: map[string]any{}}
}

// ---- building ------------------------------------------------------------------------------

func goEnv() []string {
	env := os.Environ()
	env = append(env, "GOFLAGS=-mod=mod", "GOPROXY=off", "GOSUMDB=off", "GOTOOLCHAIN=local", "CGO_ENABLED="+cgo())
	return env
}

func cgo() string {
	if v := os.Getenv("VERIF_CGO"); v != "" {
		return v
	}
	return "1"
}

// buildWorker compiles cmd/worker against repoDir. The module file is generated so that the
// replace directive points at the tree under check (default /repo).
func buildWorker(dir string, race bool) (string, error) {
	mon := filepath.Join(verifDir, "mon")
	modfile := filepath.Join(dir, "worker.mod")
	gomod := fmt.Sprintf("module verif/mon\n\ngo 1.21\n\nrequire github.com/github/go-spdx/v2 v2.0.0\n\nreplace github.com/github/go-spdx/v2 => %s\n", repoDir)
	if err := os.WriteFile(modfile, []byte(gomod), 0o644); err != nil {
		return "", err
	}
	sum, err := os.ReadFile(filepath.Join(repoDir, "go.sum"))
	if err == nil {
		os.WriteFile(filepath.Join(dir, "worker.sum"), sum, 0o644)
	}
	out := filepath.Join(dir, "worker")
	args := []string{"build", "-modfile=" + modfile}
	if race {
		out += "-race"
		args = append(args, "-race")
	}
	args = append(args, "-o", out, "./cmd/worker")
	cmd := exec.Command("go", args...)
	cmd.Dir = mon
	cmd.Env = goEnv()
	var buf bytes.Buffer
	cmd.Stdout = &buf
	cmd.Stderr = &buf
	if err := cmd.Run(); err != nil {
		return "", fmt.Errorf("go %s: %v\n%s", strings.Join(args, " "), err, buf.String())
	}
	return out, nil
}

// ---- running children ----------------------------------------------------------------------

func (r *run) runPhase(ph *phase, bin string) []*child {
	n := ph.Shards
	if n < 1 {
		n = 1
	}
	kids := make([]*child, n)
	par := jobs
	if ph.Serial {
		par = 1
	}
	sem := make(chan struct{}, par)
	var wg sync.WaitGroup
	for i := 0; i < n; i++ {
		k := &child{phase: ph, shard: i}
		kids[i] = k
		wg.Add(1)
		sem <- struct{}{}
		go func() {
			defer wg.Done()
			defer func() { <-sem }()
			r.runChild(k, bin, n)
		}()
	}
	wg.Wait()
	return kids
}

func (r *run) runChild(k *child, bin string, nshards int) {
	ph := k.phase
	tag := fmt.Sprintf("%s-%d", nz(ph.Name, "main"), k.shard)
	k.evFile = filepath.Join(r.dir, tag+".ev.jsonl")
	k.jFile = filepath.Join(r.dir, tag+".journal")
	k.dFile = filepath.Join(r.dir, tag+".distinct")
	k.stdout = filepath.Join(r.dir, tag+".stdout")
	k.stderr = filepath.Join(r.dir, tag+".stderr")
	memcap := ph.MemCap
	if memcap == 0 {
		memcap = 6 << 30
	}
	args := []string{"run", "-prop", r.prop, "-tier", r.tier, "-seed", strconv.FormatInt(seed, 10),
		"-shard", strconv.Itoa(k.shard), "-nshards", strconv.Itoa(nshards),
		"-out", k.evFile, "-journal", k.jFile, "-distinct", k.dFile, "-phase", ph.Name,
		"-memcap", strconv.FormatUint(memcap, 10)}
	args = append(args, ph.Args...)
	var cmd *exec.Cmd
	if ph.Strace {
		k.straceF = filepath.Join(r.dir, tag+".strace")
		sargs := append([]string{"-f", "-qq", "-o", k.straceF, bin}, args...)
		cmd = exec.Command("strace", sargs...)
	} else {
		cmd = exec.Command(bin, args...)
	}
	cmd.Dir = r.dir
	env := append(os.Environ(), "GOGC=400", "GOMAXPROCS=2", "GOTRACEBACK=single", "VERIF_RUNDIR="+r.dir)
	env = append(env, "VERIF_REPO="+repoDir)
	for _, e := range ph.Env {
		e = strings.ReplaceAll(e, "%DIR%", r.dir)
		e = strings.ReplaceAll(e, "%SHARD%", strconv.Itoa(k.shard))
		env = append(env, e)
	}
	cmd.Env = env
	so, _ := os.Create(k.stdout)
	se, _ := os.Create(k.stderr)
	cmd.Stdout = so
	cmd.Stderr = se
	start := time.Now()
	if err := cmd.Start(); err != nil {
		k.exit = 127
		fmt.Fprintf(se, "start: %v\n", err)
		so.Close()
		se.Close()
		return
	}
	to := ph.Timeout
	if to == 0 {
		to = 6 * time.Minute
		if r.tier == "thorough" {
			to = 90 * time.Minute
		}
	}
	done := make(chan error, 1)
	go func() { done <- cmd.Wait() }()
	var err error
	select {
	case err = <-done:
	case <-time.After(to):
		k.timedOut = true
		cmd.Process.Signal(syscall.SIGQUIT)
		select {
		case err = <-done:
		case <-time.After(20 * time.Second):
			cmd.Process.Kill()
			err = <-done
		}
	}
	k.wall = time.Since(start)
	so.Close()
	se.Close()
	if err != nil {
		if ee, ok := err.(*exec.ExitError); ok {
			k.exit = ee.ExitCode()
			if ws, ok := ee.Sys().(syscall.WaitStatus); ok && ws.Signaled() {
				k.signaled = true
				k.exit = 128 + int(ws.Signal())
			}
		} else {
			k.exit = 126
		}
	}
}

func nz(s, d string) string {
	if s == "" {
		return d
	}
	return s
}

// journalCall decodes the call that was in flight when a child died.
type journalCall struct {
	InFlight  bool    `json:"-"`
	Fn        string  `json:"fn"`
	Args      []ev.QS `json:"args"`
	Truncated bool    `json:"truncated,omitempty"`
	ArgLens   []int   `json:"arg_lens,omitempty"`
	Seq       uint64  `json:"seq"`
}

func readJournal(path string) *journalCall {
	b, err := os.ReadFile(path)
	if err != nil || len(b) < ev.JPayloadOff {
		return nil
	}
	jc := &journalCall{}
	jc.InFlight = binary.LittleEndian.Uint32(b[ev.JStateOff:]) == 1
	switch binary.LittleEndian.Uint32(b[ev.JFnOff:]) {
	case ev.FnSatisfies:
		jc.Fn = "Satisfies"
	case ev.FnExtract:
		jc.Fn = "ExtractLicenses"
	case ev.FnValidate:
		jc.Fn = "ValidateLicenses"
	case ev.FnNoteOnly:
		jc.Fn = "note"
	default:
		jc.Fn = "?"
	}
	jc.Seq = binary.LittleEndian.Uint64(b[ev.JSeqOff:])
	n := int(binary.LittleEndian.Uint32(b[ev.JNArgsOff:]))
	jc.Truncated = binary.LittleEndian.Uint32(b[ev.JTruncOff:]) == 1
	off := ev.JPayloadOff
	for i := 0; i < n && off+8 <= len(b); i++ {
		l := int(binary.LittleEndian.Uint32(b[off:]))
		full := int(binary.LittleEndian.Uint32(b[off+4:]))
		if off+8+l > len(b) {
			break
		}
		jc.Args = append(jc.Args, ev.QS(b[off+8:off+8+l]))
		jc.ArgLens = append(jc.ArgLens, full)
		off += 8 + l
	}
	return jc
}

func tail(path string, n int) string {
	b, err := os.ReadFile(path)
	if err != nil {
		return ""
	}
	if len(b) > n {
		b = b[len(b)-n:]
	}
	return string(b)
}

func head(path string, n int) string {
	b, err := os.ReadFile(path)
	if err != nil {
		return ""
	}
	if len(b) > n {
		b = b[:n]
	}
	return string(b)
}

// collect merges what the children of a phase observed.
func (r *run) collect(kids []*child) {
	for _, k := range kids {
		r.children++
		sawDone := false
		if f, err := os.Open(k.evFile); err == nil {
			sc := bufio.NewScanner(f)
			sc.Buffer(make([]byte, 1<<20), 64<<20)
			for sc.Scan() {
				var e ev.Event
				if err := json.Unmarshal(sc.Bytes(), &e); err != nil {
					continue
				}
				switch e.T {
				case "viol":
					r.addViolation(e.Key, e.Rule, e.Detail, e.Case, 1+e.Count)
				case "stat":
					r.evals += e.Evals
					for name, v := range e.Counters {
						switch {
						case strings.HasPrefix(name, "max:"):
							if v > r.counters[name] {
								r.counters[name] = v
							}
						case strings.HasPrefix(name, "min:"):
							if cur, ok := r.counters[name]; !ok || v < cur {
								r.counters[name] = v
							}
						default:
							r.counters[name] += v
						}
					}
				case "sample":
					if len(r.samples) < 12 {
						r.samples = append(r.samples, e.Sample)
					}
				case "meta":
					if r.meta == nil {
						m := e
						r.meta = &m
					}
				case "floor":
					r.floors = append(r.floors, e)
				case "note":
					if len(r.notes) < 40 {
						r.notes = append(r.notes, e.Text)
					}
				case "done":
					sawDone = true
				}
			}
			f.Close()
		}
		if b, err := os.ReadFile(k.dFile); err == nil {
			for i := 0; i+8 <= len(b); i += 8 {
				r.distinct = append(r.distinct, binary.LittleEndian.Uint64(b[i:]))
			}
		}
		tag := fmt.Sprintf("%s/%d", nz(k.phase.Name, "main"), k.shard)
		switch {
		case k.timedOut:
			jc := readJournal(k.jFile)
			msg := fmt.Sprintf("watchdog: child %s exceeded its wall-clock limit", tag)
			if jc != nil && jc.InFlight {
				msg += fmt.Sprintf(" while %s(%s) was in flight", jc.Fn, summarizeArgs(jc))
			}
			r.inconcl = append(r.inconcl, msg)
			saveAs(k.stderr, filepath.Join(verifDir, "replay", fmt.Sprintf("%s-%d-watchdog-%s.stderr", r.prop, seed, strings.ReplaceAll(tag, "/", "-"))))
		case k.exit == 0 && sawDone:
			// normal
		case k.exit == 3 && strings.Contains(tail(k.stderr, 4096), "MEMCAP"):
			jc := readJournal(k.jFile)
			if r.prop == "C14" && jc != nil && jc.InFlight {
				r.addViolation("memcap:"+jc.Fn+":"+shortHash(jc), "C14.memcap", fmt.Sprintf("child heap exceeded the cap while %s(%s) was in flight", jc.Fn, summarizeArgs(jc)), mustJSON(crashCase(jc)), 1)
			} else {
				msg := fmt.Sprintf("memory guard: child %s exceeded its heap cap", tag)
				if jc != nil && jc.InFlight {
					msg += fmt.Sprintf(" while %s(%s) was in flight", jc.Fn, summarizeArgs(jc))
				}
				r.inconcl = append(r.inconcl, msg)
			}
		case k.exit == 4:
			r.inconcl = append(r.inconcl, fmt.Sprintf("harness error in child %s: %s", tag, strings.TrimSpace(tail(k.stderr, 600))))
		default:
			jc := readJournal(k.jFile)
			errTail := tail(k.stderr, 3000)
			if pk, pc := readPending(r.dir, k); pk != "" && jc != nil && jc.InFlight {
				first := strings.SplitN(strings.TrimSpace(head(k.stderr, 400)), "\n", 2)[0]
				if strings.HasPrefix(pk, "stack-exhaustion:") && !strings.Contains(head(k.stderr, 4000), "stack") {
					pk = "fatal:" + pk
				}
				r.addViolation(pk, r.prop+".fatal", fmt.Sprintf("child died (exit %d: %s) in announced call %s", k.exit, first, string(pc)),
					mustJSON(map[string]any{"kind": "crash", "pending": pc}), 1)
			} else if jc != nil && jc.InFlight {
				first := strings.SplitN(strings.TrimSpace(head(k.stderr, 400)), "\n", 2)[0]
				r.addViolation("fatal:"+jc.Fn+":"+shortHash(jc), r.prop+".fatal",
					fmt.Sprintf("child died (exit %d: %s) while %s(%s) was in flight", k.exit, first, jc.Fn, summarizeArgs(jc)),
					mustJSON(crashCase(jc)), 1)
			} else {
				r.inconcl = append(r.inconcl, fmt.Sprintf("child %s ended abnormally (exit %d, done=%v) with no library call in flight: %s", tag, k.exit, sawDone, strings.TrimSpace(tailLines(errTail, 12))))
			}
		}
	}
}

func tailLines(s string, n int) string {
	ls := strings.Split(strings.TrimSpace(s), "\n")
	if len(ls) > n {
		ls = ls[:n]
	}
	return strings.Join(ls, " | ")
}

func saveAs(src, dst string) {
	b, err := os.ReadFile(src)
	if err != nil {
		return
	}
	os.MkdirAll(filepath.Dir(dst), 0o755)
	os.WriteFile(dst, b, 0o644)
}

// readPending returns the key and call a child announced before a risky call (see Ctx.Pending).
func readPending(dir string, k *child) (string, json.RawMessage) {
	b, err := os.ReadFile(filepath.Join(dir, fmt.Sprintf("pending-%s-%d", k.phase.Name, k.shard)))
	if err != nil {
		return "", nil
	}
	var p struct {
		Key     string          `json:"key"`
		Pending json.RawMessage `json:"pending"`
	}
	if json.Unmarshal(b, &p) != nil {
		return "", nil
	}
	return p.Key, p.Pending
}

type crash struct {
	Kind string       `json:"kind"`
	Call *journalCall `json:"call"`
}

func crashCase(jc *journalCall) crash { return crash{Kind: "crash", Call: jc} }

func mustJSON(v any) json.RawMessage {
	b, _ := json.Marshal(v)
	return b
}

func summarizeArgs(jc *journalCall) string {
	var parts []string
	for i, a := range jc.Args {
		s := strconv.QuoteToASCII(string(a))
		if len(s) > 80 {
			s = s[:60] + "…" + fmt.Sprintf("(%d bytes)", jc.ArgLens[i])
		}
		parts = append(parts, s)
		if i >= 3 {
			parts = append(parts, fmt.Sprintf("… %d args", len(jc.Args)))
			break
		}
	}
	return strings.Join(parts, ", ")
}

func shortHash(jc *journalCall) string {
	h := uint64(14695981039346656037)
	for _, a := range jc.Args {
		for i := 0; i < len(a); i++ {
			h ^= uint64(a[i])
			h *= 1099511628211
		}
		h ^= 0xff
		h *= 1099511628211
	}
	return fmt.Sprintf("%08x", h&0xffffffff)
}

func (r *run) addViolation(key, rule, detail string, cas json.RawMessage, count int64) {
	v, ok := r.viols[key]
	if !ok {
		v = &violation{Key: key}
		r.viols[key] = v
		r.violOrder = append(r.violOrder, key)
	}
	v.Count += count
	if v.Case == nil && cas != nil {
		v.Rule, v.Detail, v.Case = rule, detail, cas
	}
}

// ---- known findings ------------------------------------------------------------------------

type finding struct {
	Property, Key, Text string
}

func loadFindings(prop string) (open []finding) {
	b, err := os.ReadFile(filepath.Join(verifDir, "KNOWN_FINDINGS.txt"))
	if err != nil {
		return nil
	}
	for _, line := range strings.Split(string(b), "\n") {
		line = strings.TrimSpace(line)
		if !strings.HasPrefix(line, "open:") {
			continue
		}
		f := finding{}
		rest := strings.Fields(strings.TrimPrefix(line, "open:"))
		var text []string
		for _, w := range rest {
			switch {
			case strings.HasPrefix(w, "property=") && f.Property == "":
				f.Property = strings.TrimPrefix(w, "property=")
			case strings.HasPrefix(w, "key=") && f.Key == "":
				f.Key = strings.TrimPrefix(w, "key=")
			default:
				text = append(text, w)
			}
		}
		f.Text = strings.Join(text, " ")
		if f.Property == prop && f.Key != "" {
			open = append(open, f)
		}
	}
	return open
}

// ---- verdict + evidence --------------------------------------------------------------------

func (r *run) finish() int {
	sort.Slice(r.distinct, func(i, j int) bool { return r.distinct[i] < r.distinct[j] })
	nd := 0
	for i, h := range r.distinct {
		if i == 0 || h != r.distinct[i-1] {
			nd++
		}
	}
	nd += int(r.counters["distinct_by_construction"])
	// floors
	var unmet []string
	floorMap := map[string]any{}
	for _, f := range r.floors {
		got := r.counters[f.Name]
		floorMap[f.Name] = map[string]int64{"min": f.Min, "observed": got}
		if got < f.Min {
			unmet = append(unmet, fmt.Sprintf("%s=%d<%d", f.Name, got, f.Min))
		}
	}
	open := loadFindings(r.prop)
	openKeys := map[string]bool{}
	for _, f := range open {
		openKeys[f.Key] = true
	}
	os.MkdirAll(filepath.Join(verifDir, "replay"), 0o755)
	var newViol []*violation
	knownSeen := map[string]int64{}
	for _, k := range r.violOrder {
		v := r.viols[k]
		if openKeys[k] {
			knownSeen[k] += v.Count
			continue
		}
		newViol = append(newViol, v)
	}
	for i, v := range newViol {
		if i >= 20 {
			break
		}
		path := filepath.Join(verifDir, "replay", fmt.Sprintf("%s-%d-%d.json", r.prop, seed, i))
		rp := ev.Replay{Property: r.prop, Key: v.Key, Rule: v.Rule, Detail: v.Detail, Seed: seed, Tier: r.tier, Case: v.Case}
		b, _ := json.MarshalIndent(rp, "", " ")
		os.WriteFile(path, b, 0o644)
		v.Replay = path
	}

	verdict := "held"
	exit := 0
	switch {
	case len(newViol) > 0:
		verdict, exit = "violated", 1
	case len(r.inconcl) > 0 || len(unmet) > 0 || r.meta == nil:
		verdict, exit = "inconclusive", 2
	}

	// evidence
	cov := map[string]any{}
	for k, v := range r.extra {
		cov[k] = v
	}
	cov["evaluations"] = r.evals
	cov["distinct_nontrivial"] = nd
	rule := ""
	var assumptions []string
	if r.meta != nil {
		rule = r.meta.RuleText
		assumptions = r.meta.Assumptions
		cov["exhaustive"] = r.meta.Exhaustive
		cov["bounds"] = r.meta.Bounds
	}
	cov["rule"] = rule
	samples := make([]any, 0, len(r.samples))
	for _, s := range r.samples {
		var v any
		json.Unmarshal(s, &v)
		samples = append(samples, v)
	}
	cov["samples"] = samples
	cov["observed"] = r.counters
	cov["coverage_floors"] = floorMap
	cov["children"] = r.children
	cov["verdict"] = verdict
	if len(r.notes) > 0 {
		cov["notes"] = r.notes
	}
	if len(r.inconcl) > 0 || len(unmet) > 0 {
		cov["inconclusive_reasons"] = append(append([]string{}, r.inconcl...), unmet...)
	}
	var kf []map[string]any
	for _, f := range open {
		kf = append(kf, map[string]any{"key": f.Key, "text": f.Text, "observed_this_run": knownSeen[f.Key]})
	}
	if kf != nil {
		cov["known_findings"] = kf
	}
	var vlist []map[string]any
	for i, v := range newViol {
		if i >= 20 {
			break
		}
		vlist = append(vlist, map[string]any{"key": v.Key, "rule": v.Rule, "detail": v.Detail, "occurrences": v.Count, "replay": v.Replay})
	}
	if vlist != nil {
		cov["violation_list"] = vlist
	}
	if assumptions == nil {
		assumptions = []string{}
	}
	evd := map[string]any{
		"property_id": r.prop,
		"tier":        r.tier,
		"seed":        seed,
		"level":       "exploration",
		"coverage":    cov,
		"assumptions": assumptions,
		"wall_s":      float64(time.Since(r.start).Milliseconds()) / 1000,
		"violations":  len(newViol),
	}
	b, _ := json.MarshalIndent(evd, "", " ")
	evDir := filepath.Join(verifDir, "evidence")
	if v := os.Getenv("VERIF_EVIDENCE_DIR"); v != "" {
		evDir = v
	} else if repoDir != "/repo" {
		// self-tests against a mutated scratch copy must not overwrite the evidence of the real tree
		evDir = filepath.Join(verifDir, ".build", "selftest-evidence")
	}
	os.MkdirAll(evDir, 0o755)
	evPath := filepath.Join(evDir, r.prop+".json")
	if err := os.WriteFile(evPath, append(b, '\n'), 0o644); err != nil {
		fmt.Fprintln(os.Stderr, "cannot write evidence:", err)
		exit = 2
	}
	if exit != 1 && (r.evals < 1 || nd < 2 || len(samples) < 1) {
		r.inconcl = append(r.inconcl, fmt.Sprintf("evidence below schema minimum: evaluations=%d distinct=%d samples=%d", r.evals, nd, len(samples)))
		verdict, exit = "inconclusive", 2
	}

	// output
	fmt.Printf("== %s %s seed=%d: %d library calls judged, %d distinct non-trivial cases, %d children, %.1fs\n",
		r.prop, r.tier, seed, r.evals, nd, r.children, time.Since(r.start).Seconds())
	for _, f := range open {
		obs := "no"
		if knownSeen[f.Key] > 0 {
			obs = fmt.Sprintf("yes(%d)", knownSeen[f.Key])
		}
		fmt.Printf("KNOWN-FINDING: property=%s key=%s observed=%s %s\n", r.prop, f.Key, obs, f.Text)
	}
	for i, v := range newViol {
		if i >= 20 {
			fmt.Printf("… and %d more distinct violation keys\n", len(newViol)-20)
			break
		}
		fmt.Printf("VIOLATION property=%s replay=%s\n", r.prop, v.Replay)
		fmt.Printf("   key=%s rule=%s occurrences=%d\n   %s\n", v.Key, v.Rule, v.Count, trunc(v.Detail, 600))
	}
	if exit == 2 {
		for _, m := range r.inconcl {
			fmt.Printf("INCONCLUSIVE property=%s reason=%s\n", r.prop, trunc(m, 1200))
		}
		if len(unmet) > 0 {
			fmt.Printf("INCONCLUSIVE property=%s reason=coverage floor not met: %s\n", r.prop, strings.Join(unmet, ", "))
		}
		if r.meta == nil {
			fmt.Printf("INCONCLUSIVE property=%s reason=no monitor metadata received\n", r.prop)
		}
	}
	fmt.Printf("verdict=%s evidence=%s\n", verdict, evPath)
	if os.Getenv("VERIF_KEEP") == "" {
		os.RemoveAll(r.dir)
	}
	return exit
}

func trunc(s string, n int) string {
	if len(s) > n {
		return s[:n] + "…"
	}
	return s
}

func doCheck(prop, tier string) int {
	plan, ok := plans[prop]
	if !ok {
		fmt.Fprintln(os.Stderr, "unknown property", prop)
		return 2
	}
	r := newRun(prop, tier)
	bins := map[bool]string{}
	for _, ph := range plan(tier) {
		ph := ph
		if ph.Name == "@generator" {
			checkGenerator(r)
			continue
		}
		bin, ok := bins[ph.Race]
		if !ok {
			var err error
			bin, err = buildWorker(r.dir, ph.Race)
			if err != nil {
				fmt.Printf("INCONCLUSIVE property=%s reason=worker does not build against %s: %s\n", prop, repoDir, trunc(err.Error(), 2000))
				os.RemoveAll(r.dir)
				return 2
			}
			bins[ph.Race] = bin
		}
		kids := r.runPhase(&ph, bin)
		r.collect(kids)
		if hook, ok := postPhase[prop]; ok {
			hook(r, &ph, kids)
		}
	}
	return r.finish()
}

func doReplay(prop, file string) int {
	b, err := os.ReadFile(file)
	if err != nil {
		fmt.Fprintln(os.Stderr, err)
		return 2
	}
	var rp ev.Replay
	if err := json.Unmarshal(b, &rp); err != nil {
		fmt.Fprintln(os.Stderr, "bad replay file:", err)
		return 2
	}
	if rp.Property != prop {
		fmt.Fprintf(os.Stderr, "replay file is for %s, not %s\n", rp.Property, prop)
		return 2
	}
	r := newRun(prop, "replay")
	defer os.RemoveAll(r.dir)
	if rp.Rule == "C12.generator" {
		checkGenerator(r)
		if len(r.viols) > 0 {
			for _, k := range r.violOrder {
				fmt.Printf("REPRODUCED key=%s %s\n", k, trunc(r.viols[k].Detail, 400))
			}
			fmt.Printf("VIOLATION property=%s replay=%s\n", prop, file)
			return 1
		}
		fmt.Printf("replay: property=%s key=%s not reproduced on this tree\n", prop, rp.Key)
		return 0
	}
	race := strings.Contains(rp.Rule, ".race")
	bin, err := buildWorker(r.dir, race)
	if err != nil {
		fmt.Printf("INCONCLUSIVE property=%s reason=worker does not build: %s\n", prop, trunc(err.Error(), 2000))
		return 2
	}
	abs, _ := filepath.Abs(file)
	cmd := exec.Command(bin, "replay", "-file", abs)
	cmd.Dir = r.dir
	cmd.Env = append(os.Environ(), "GOGC=400", "GOTRACEBACK=single", "VERIF_RUNDIR="+r.dir)
	var out, errb bytes.Buffer
	cmd.Stdout = &out
	cmd.Stderr = &errb
	err = cmd.Run()
	os.Stdout.Write(out.Bytes())
	if err == nil {
		return 0
	}
	if ee, ok := err.(*exec.ExitError); ok && ee.ExitCode() == 1 {
		return 1
	}
	// the replayed call killed the process: that is the violation
	fmt.Printf("replayed call ended the process: %s\n", tailLines(errb.String(), 3))
	fmt.Printf("VIOLATION property=%s replay=%s\n", prop, abs)
	return 1
}
