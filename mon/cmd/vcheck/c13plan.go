package main

func planC13(tier string) []phase { return []phase{{Name: "", Shards: 1}} }
