package main

import (
	"bufio"
	"fmt"
	"os"
	"path/filepath"
	"regexp"
	"strings"
	"time"
)

func planC13(tier string) []phase {
	hist, combos := 6, 4
	if tier == "thorough" {
		hist, combos = 40, 8
	}
	ps := []phase{
		{Name: "ref", Shards: 1},
		{Name: "hist", Shards: hist},
		{Name: "reuse", Shards: 8},
		{Name: "tables", Shards: 1},
		{Name: "conc", Shards: combos, Race: true, Serial: false, MemCap: 14 << 30, Timeout: map[bool]time.Duration{false: 8 * time.Minute, true: 40 * time.Minute}[tier == "thorough"],
			Env: []string{"GORACE=halt_on_error=0 exitcode=0 log_path=%DIR%/race-%SHARD%", "GOMAXPROCS=16"}},
	}
	if tier == "thorough" {
		ps = append(ps, phase{Name: "strace", Shards: 1, Strace: true})
	}
	return ps
}

func init() {
	postPhase["C13"] = func(r *run, ph *phase, kids []*child) {
		// silence: fd 1 and fd 2 of every child must be empty
		for _, k := range kids {
			quiet := true
			for _, f := range []struct{ name, path string }{{"stdout", k.stdout}, {"stderr", k.stderr}} {
				st, err := os.Stat(f.path)
				if err != nil || st.Size() == 0 {
					continue
				}
				if k.exit != 0 || k.timedOut {
					continue // a dying child's traceback is not library output; handled by collect()
				}
				quiet = false
				r.addViolation("output:"+f.name, "C13.silence",
					fmt.Sprintf("child %s/%d wrote %d bytes to %s while running the workload: %q", ph.Name, k.shard, st.Size(), f.name, trunc(head(f.path, 300), 300)),
					mustJSON(map[string]any{"kind": "output", "stream": f.name, "phase": ph.Name}), 1)
			}
			if quiet {
				r.counters["silent_children"]++
			}
			r.counters["output_bytes_checked_children"]++
		}
		switch ph.Name {
		case "conc":
			scanRaceLogs(r)
			n, m := int64(0), int64(0)
			for name := range r.counters {
				if strings.HasPrefix(name, "max:overlap_") {
					n++
				}
				if strings.HasPrefix(name, "max:slice_") {
					m++
				}
			}
			r.counters["fn_pairs_overlapped"] = n
			r.counters["shared_slices_used_concurrently"] = m
		case "strace":
			for _, k := range kids {
				scanStrace(r, k)
			}
		}
	}
}

var reFrame = regexp.MustCompile(`^\s+([A-Za-z0-9_./()*\-]+)\(\)$`)

// scanRaceLogs counts and de-duplicates the race detector's reports.
func scanRaceLogs(r *run) {
	files, _ := filepath.Glob(filepath.Join(r.dir, "race-*"))
	total := 0
	for _, f := range files {
		fh, err := os.Open(f)
		if err != nil {
			continue
		}
		sc := bufio.NewScanner(fh)
		sc.Buffer(make([]byte, 1<<20), 16<<20)
		var block []string
		flush := func() {
			if len(block) == 0 {
				return
			}
			total++
			// outermost/innermost library frames of the report
			var libFrames, allFrames []string
			for _, l := range block {
				if m := reFrame.FindStringSubmatch(l); m != nil {
					allFrames = append(allFrames, m[1])
					if strings.Contains(m[1], "go-spdx") {
						libFrames = append(libFrames, m[1])
					}
				}
			}
			key := "race:harness-only"
			rule := "C13.race"
			if len(libFrames) > 0 {
				key = "race:" + shortFrame(libFrames[0])
				if len(libFrames) > 1 {
					key += "~" + shortFrame(libFrames[len(libFrames)-1])
				}
			}
			if len(libFrames) == 0 {
				r.inconcl = append(r.inconcl, "data race without a library frame (harness bug?): "+trunc(strings.Join(allFrames, " <- "), 300))
			} else {
				r.addViolation(key, rule, "the Go race detector reported a data race between concurrent library calls: "+trunc(strings.Join(block, " | "), 1500),
					mustJSON(map[string]any{"kind": "race", "report": block}), 1)
			}
			block = nil
		}
		in := false
		for sc.Scan() {
			line := sc.Text()
			if strings.Contains(line, "WARNING: DATA RACE") {
				flush()
				in = true
			}
			if in {
				if strings.HasPrefix(line, "==================") && len(block) > 0 {
					flush()
					in = false
					continue
				}
				if len(block) < 80 {
					block = append(block, line)
				}
			}
		}
		flush()
		fh.Close()
	}
	r.counters["race_reports"] += int64(total)
	r.counters["race_logs_scanned"] += int64(len(files))
}

func shortFrame(f string) string {
	if i := strings.LastIndex(f, "/"); i >= 0 {
		f = f[i+1:]
	}
	return f
}

var reStraceLine = regexp.MustCompile(`^(\d+)\s+([a-z0-9_]+)\((.*)$`)

// scanStrace checks that between the worker's VERIF-BEGIN / VERIF-END markers nothing was written to
// fd 1/2 and no file, socket or process was opened.
func scanStrace(r *run, k *child) {
	fh, err := os.Open(k.straceF)
	if err != nil {
		r.inconcl = append(r.inconcl, "strace log missing (strace could not attach?): "+strings.TrimSpace(tail(k.stderr, 300)))
		return
	}
	defer fh.Close()
	sc := bufio.NewScanner(fh)
	sc.Buffer(make([]byte, 1<<20), 16<<20)
	inside, sawBegin, sawEnd := false, false, false
	var lines int64
	for sc.Scan() {
		line := sc.Text()
		if strings.Contains(line, "VERIF-BEGIN") {
			inside, sawBegin = true, true
			continue
		}
		if strings.Contains(line, "VERIF-END") {
			inside, sawEnd = false, true
			continue
		}
		if !inside {
			continue
		}
		m := reStraceLine.FindStringSubmatch(line)
		if m == nil {
			continue
		}
		lines++
		sys, args := m[2], m[3]
		bad := ""
		switch sys {
		case "write":
			if strings.HasPrefix(args, "1,") || strings.HasPrefix(args, "2,") {
				bad = "write to fd " + args[:1]
			}
		case "openat", "open", "creat", "socket", "connect", "unlink", "unlinkat", "rename", "renameat", "mkdir", "mkdirat", "execve", "sendto", "sendmsg":
			bad = sys
		}
		if bad != "" {
			r.addViolation("syscall:"+bad, "C13.silence", "between the workload markers the process made the system call "+trunc(line, 300),
				mustJSON(map[string]any{"kind": "strace", "line": line}), 1)
		}
	}
	r.counters["strace_syscalls_inspected"] += lines // every system call between the markers (all are traced), of which only those above are violations
	if !sawBegin || !sawEnd {
		r.inconcl = append(r.inconcl, "strace log lacks the workload markers")
	} else {
		r.counters["strace_runs"]++
	}
}
