package main

import (
	"time"
)

// plans: the phases (groups of worker children) each property's check consists of.
var plans = map[string]func(tier string) []phase{}

// postPhase hooks run in the orchestrator after a phase was collected.
var postPhase = map[string]func(r *run, ph *phase, kids []*child){}

func sharded(tier string) []phase { return []phase{{Name: "", Shards: jobs}} }

func init() {
	for _, p := range []string{"C01", "C02", "C04", "C05", "C06", "C07", "C08", "C09", "C10", "C11", "C15"} {
		plans[p] = sharded
	}
	plans["C03"] = func(tier string) []phase {
		ps := []phase{
			{Name: "corpus", Shards: jobs},
			{Name: "extreme", Shards: 19, MemCap: 12 << 30, Timeout: map[bool]time.Duration{false: 6 * time.Minute, true: 30 * time.Minute}[tier == "thorough"]} /* one child per ladder of extremeLadders */,
		}
		if tier == "thorough" {
			ps = append(ps, phase{Name: "race-corpus", Shards: jobs, Race: true, Env: []string{"GORACE=halt_on_error=1"}})
		}
		return ps
	}
	plans["C12"] = func(tier string) []phase {
		return []phase{{Name: "tables", Shards: 1}, {Name: "@generator"}}
	}
	plans["C13"] = planC13
	plans["C14"] = func(tier string) []phase {
		return []phase{{Name: "ladders", Shards: 16, MemCap: 8 << 30}, {Name: "absolute", Shards: jobs}}
	}
}
