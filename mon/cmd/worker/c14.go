package main

import (
	"encoding/json"
	"fmt"
	"math"
	"runtime"
	"strings"
	"syscall"
	"time"

	"verif/mon/internal/ev"
	"verif/mon/internal/gen"
)

// C14 — cost is polynomial in input size.
//
// Observed quantity: bytes allocated by one call (runtime.MemStats.TotalAlloc delta in a
// single-goroutine child: deterministic for a given binary, independent of load). Oracle: a growth
// law over ladders of sizes, and the absolute rule of the statement (<=512 bytes of input must not
// allocate more than 64 MiB).

func init() { register("C14", runC14, replayC14) }

const (
	c14CPUFloorMs  = 1000.0 // rungs using less thread CPU time are not used for CPU exponents
	c14CPUAbsMs    = 5000.0 // "... or run for seconds": <= 512 bytes of input must not need more thread CPU time than this
	c14NoiseFloor  = 8 << 20  // rungs allocating less are not used for exponents
	c14StopAbove   = 1 << 30  // a ladder stops climbing once a rung allocates more
	c14AbsBytes    = 512      // "a few hundred bytes"
	c14AbsLimit    = 64 << 20 // ... must not allocate more than this
	c14MaxExponent = 3.5
)

type C14Case struct {
	Family string `json:"family"`
	Fn     string `json:"fn"`
	N      []int  `json:"n"` // rungs to measure (replay: the two rungs of the failing step)
	// for the absolute phase: an explicit input
	Expr    ev.QS   `json:"expr,omitempty"`
	Allowed []ev.QS `json:"allowed,omitempty"`
}

type family struct {
	name    string
	fns     []string
	quick   []int
	thor    []int
	product bool // DNF cross-product family (known finding D10)
	build   func(u *gen.Universe, n int) (expr string, list []string)
}

func idAt(u *gen.Universe, i int) string { return u.ActPlain[i%len(u.ActPlain)] }

func chain(u *gen.Universe, n int, op string, wrap func(i int, id string) string) string {
	var b strings.Builder
	for i := 0; i < n; i++ {
		if i > 0 {
			b.WriteString(" " + op + " ")
		}
		s := idAt(u, i)
		if wrap != nil {
			s = wrap(i, s)
		}
		b.WriteString(s)
	}
	return b.String()
}

func firstN(u *gen.Universe, n int) []string {
	l := make([]string, n)
	for i := range l {
		l[i] = idAt(u, i*7+3)
	}
	return l
}

var allFns = []string{"Satisfies", "ExtractLicenses", "ValidateLicenses"}
var short = []string{"MIT", "Apache-2.0", "ISC"}

// fine builds a ladder that starts with small steps (so that exponential growth is caught by the
// allocation rule long before a rung becomes too expensive to finish) and then grows geometrically
// (factor ~1.5) up to top.
func fine(top int) []int {
	out := []int{2, 4, 6, 8, 10, 12, 14, 16, 18, 20, 22, 24, 28, 32}
	for n := 40; n < top; n = n*3/2 + 1 {
		out = append(out, n)
	}
	var r []int
	for _, n := range out {
		if n < top {
			r = append(r, n)
		}
	}
	return append(r, top)
}

func families() []family {
	geo := func(vals ...int) []int {
		if len(vals) >= 3 && vals[0] >= 15 { // polynomial families: fine-grained ladder up to the old top rung
			return fine(vals[len(vals)-1])
		}
		return vals
	}
	return []family{
		{name: "and_chain", fns: allFns, quick: geo(30, 120, 500, 1500), thor: geo(30, 120, 500, 2000, 8000),
			build: func(u *gen.Universe, n int) (string, []string) { return chain(u, n, "AND", nil), short }},
		{name: "or_chain", fns: allFns, quick: geo(30, 120, 500, 1500), thor: geo(30, 120, 500, 2000, 8000),
			build: func(u *gen.Universe, n int) (string, []string) { return chain(u, n, "OR", nil), short }},
		{name: "same_term_chain", fns: allFns, quick: geo(50, 200, 800, 2500), thor: geo(50, 200, 800, 3200, 12000),
			build: func(u *gen.Universe, n int) (string, []string) {
				return strings.Repeat("MIT AND ", n-1) + "MIT", short
			}},
		{name: "nest_depth", fns: allFns, quick: geo(100, 1000, 5000), thor: geo(100, 1000, 10000, 50000),
			build: func(u *gen.Universe, n int) (string, []string) {
				return strings.Repeat("(", n) + "MIT" + strings.Repeat(")", n), short
			}},
		{name: "and_of_or2", fns: allFns, product: true, quick: geo(4, 6, 8, 10, 12, 14), thor: geo(4, 6, 8, 10, 12, 14, 16),
			build: func(u *gen.Universe, n int) (string, []string) {
				var g []string
				for i := 0; i < n; i++ {
					g = append(g, "("+idAt(u, 2*i)+" OR "+idAt(u, 2*i+1)+")")
				}
				return strings.Join(g, " AND "), short
			}},
		{name: "and_of_or3", fns: allFns, product: true, quick: geo(3, 4, 5, 6, 7, 8, 9), thor: geo(3, 4, 5, 6, 7, 8, 9, 10),
			build: func(u *gen.Universe, n int) (string, []string) {
				var g []string
				for i := 0; i < n; i++ {
					g = append(g, "("+idAt(u, 3*i)+" OR "+idAt(u, 3*i+1)+" OR "+idAt(u, 3*i+2)+")")
				}
				return strings.Join(g, " AND "), short
			}},
		{name: "alt_nest", fns: allFns, product: true, quick: geo(3, 5, 7, 9, 11, 13), thor: geo(3, 5, 7, 9, 11, 13, 15),
			build: func(u *gen.Universe, n int) (string, []string) {
				// E_0 = a0 ; E_i = (E_{i-1} OR a_i) AND (b_i OR c_i)
				e := idAt(u, 0)
				for i := 1; i <= n; i++ {
					e = "(" + e + " OR " + idAt(u, 3*i) + ") AND (" + idAt(u, 3*i+1) + " OR " + idAt(u, 3*i+2) + ")"
				}
				return e, short
			}},
		{name: "or_of_and", fns: allFns, quick: geo(15, 60, 250, 800), thor: geo(15, 60, 250, 1000, 4000),
			build: func(u *gen.Universe, n int) (string, []string) {
				var g []string
				for i := 0; i < n; i++ {
					g = append(g, "("+idAt(u, 2*i)+" AND "+idAt(u, 2*i+1)+")")
				}
				return strings.Join(g, " OR "), short
			}},
		{name: "and_chain_times_or", fns: allFns, quick: geo(30, 120, 500, 1500), thor: geo(30, 120, 500, 2000, 6000),
			build: func(u *gen.Universe, n int) (string, []string) {
				return "(" + chain(u, n, "AND", nil) + ") AND (MIT OR ISC)", short
			}},
		{name: "or_later_chain", fns: allFns, quick: geo(20, 80, 320, 900), thor: geo(20, 80, 320, 1300, 4000),
			build: func(u *gen.Universe, n int) (string, []string) {
				return chain(u, n, "AND", func(i int, id string) string { return u.SynthBase[i%len(u.SynthBase)] + "-or-later" }), short
			}},
		{name: "with_chain", fns: allFns, quick: geo(15, 60, 250, 700), thor: geo(15, 60, 250, 1000, 3000),
			build: func(u *gen.Universe, n int) (string, []string) {
				return chain(u, n, "OR", func(i int, id string) string { return id + "+ WITH " + u.Exceptions[i%len(u.Exceptions)] }), short
			}},
		{name: "ref_chain", fns: allFns, quick: geo(20, 80, 320, 900), thor: geo(20, 80, 320, 1300, 4000),
			build: func(u *gen.Universe, n int) (string, []string) {
				return chain(u, n, "OR", func(i int, id string) string { return fmt.Sprintf("DocumentRef-d%d:LicenseRef-r%d", i, i) }), []string{"LicenseRef-r1", "MIT"}
			}},
		{name: "paren_singletons", fns: allFns, quick: geo(30, 120, 500, 1500), thor: geo(30, 120, 500, 2000, 8000),
			build: func(u *gen.Universe, n int) (string, []string) {
				return chain(u, n, "AND", func(i int, id string) string { return "((" + id + "))" }), short
			}},
		{name: "alternating_nest_right", fns: allFns, quick: geo(15, 60, 250, 600), thor: geo(15, 60, 250, 1000, 2500),
			build: func(u *gen.Universe, n int) (string, []string) {
				// a1 AND (b1 OR (a2 AND (b2 OR ( ... )))): n alternation levels, only n+1 alternatives
				e := idAt(u, 0)
				for i := 1; i <= n; i++ {
					if i%2 == 1 {
						e = idAt(u, i) + " OR (" + e + ")"
					} else {
						e = idAt(u, i) + " AND (" + e + ")"
					}
				}
				return e, short
			}},
		{name: "alternating_nest_left", fns: allFns, quick: geo(15, 60, 250, 600), thor: geo(15, 60, 250, 1000, 2500),
			build: func(u *gen.Universe, n int) (string, []string) {
				e := idAt(u, 0)
				for i := 1; i <= n; i++ {
					if i%2 == 1 {
						e = "(" + e + ") OR " + idAt(u, i)
					} else {
						e = "(" + e + ") AND " + idAt(u, i)
					}
				}
				return e, short
			}},
		{name: "double_paren_and_nest", fns: allFns, quick: geo(15, 60, 250, 600), thor: geo(15, 60, 250, 1000, 2500),
			build: func(u *gen.Universe, n int) (string, []string) {
				// S_k = ((a_k AND S_k-1) AND b_k): a "((" that does not close as "))" at every level (speculative parsers re-parse)
				e := idAt(u, 0)
				for i := 1; i <= n; i++ {
					e = "((" + idAt(u, 2*i) + " AND " + e + ") AND " + idAt(u, 2*i+1) + ")"
				}
				return e, short
			}},
		{name: "double_paren_or_nest", fns: allFns, quick: geo(15, 60, 250, 600), thor: geo(15, 60, 250, 1000, 2500),
			build: func(u *gen.Universe, n int) (string, []string) {
				e := idAt(u, 0)
				for i := 1; i <= n; i++ {
					e = "((" + e + " OR " + idAt(u, 2*i) + ") OR " + idAt(u, 2*i+1) + ")"
				}
				return e, short
			}},
		{name: "wrapped_middle_nest", fns: allFns, quick: geo(15, 60, 250, 600), thor: geo(15, 60, 250, 1000, 2500),
			build: func(u *gen.Universe, n int) (string, []string) {
				e := idAt(u, 0)
				for i := 1; i <= n; i++ {
					e = "(" + idAt(u, 2*i) + " AND ((" + e + ")) AND " + idAt(u, 2*i+1) + ")"
				}
				return e, short
			}},
		{name: "left_nest_and", fns: allFns, quick: geo(15, 60, 250, 600), thor: geo(15, 60, 250, 1000, 2500),
			build: func(u *gen.Universe, n int) (string, []string) {
				e := idAt(u, 0)
				for i := 1; i <= n; i++ {
					e = "(" + e + " AND " + idAt(u, i) + ")"
				}
				return e, short
			}},
		{name: "right_nest_or", fns: allFns, quick: geo(15, 60, 250, 600), thor: geo(15, 60, 250, 1000, 2500),
			build: func(u *gen.Universe, n int) (string, []string) {
				e := idAt(u, 0)
				for i := 1; i <= n; i++ {
					e = "(" + idAt(u, i) + " OR " + e + ")"
				}
				return e, short
			}},
		{name: "unclosed_nest_error", fns: allFns, quick: geo(15, 60, 250, 600), thor: geo(15, 60, 250, 1000, 2500),
			build: func(u *gen.Universe, n int) (string, []string) {
				// the double-paren nest with its last ")" missing: invalid, found only at the very end
				e := idAt(u, 0)
				for i := 1; i <= n; i++ {
					e = "((" + idAt(u, 2*i) + " AND " + e + ") AND " + idAt(u, 2*i+1) + ")"
				}
				return e[:len(e)-1], short
			}},
		{name: "and_of_and_groups", fns: allFns, quick: geo(15, 60, 250, 700), thor: geo(15, 60, 250, 1000, 3000),
			build: func(u *gen.Universe, n int) (string, []string) {
				var g []string
				for i := 0; i < n; i++ {
					g = append(g, "("+idAt(u, 2*i)+" AND "+idAt(u, 2*i+1)+")")
				}
				return strings.Join(g, " AND "), short
			}},
		{name: "or_of_or_groups", fns: allFns, quick: geo(15, 60, 250, 700), thor: geo(15, 60, 250, 1000, 3000),
			build: func(u *gen.Universe, n int) (string, []string) {
				var g []string
				for i := 0; i < n; i++ {
					g = append(g, "("+idAt(u, 3*i)+" OR "+idAt(u, 3*i+1)+" OR "+idAt(u, 3*i+2)+")")
				}
				return strings.Join(g, " OR "), short
			}},
		{name: "balanced_and", fns: allFns, quick: geo(16, 64, 256, 1024), thor: geo(16, 64, 256, 1024, 4096),
			build: func(u *gen.Universe, n int) (string, []string) {
				var mk func(lo, hi int) string
				mk = func(lo, hi int) string {
					if hi-lo == 1 {
						return idAt(u, lo)
					}
					m := (lo + hi) / 2
					return "(" + mk(lo, m) + " AND " + mk(m, hi) + ")"
				}
				return mk(0, n), short
			}},
		{name: "balanced_or", fns: allFns, quick: geo(16, 64, 256, 1024), thor: geo(16, 64, 256, 1024, 4096),
			build: func(u *gen.Universe, n int) (string, []string) {
				var mk func(lo, hi int) string
				mk = func(lo, hi int) string {
					if hi-lo == 1 {
						return idAt(u, lo)
					}
					m := (lo + hi) / 2
					return "(" + mk(lo, m) + " OR " + mk(m, hi) + ")"
				}
				return mk(0, n), short
			}},
		{name: "deep_parens_each_term", fns: allFns, quick: geo(15, 60, 250, 700), thor: geo(15, 60, 250, 1000, 3000),
			build: func(u *gen.Universe, n int) (string, []string) {
				return chain(u, n, "OR", func(i int, id string) string { return strings.Repeat("(", 8) + id + strings.Repeat(")", 8) }), short
			}},
		{name: "spaced_chain", fns: allFns, quick: geo(15, 60, 250, 500), thor: geo(15, 60, 250, 1000, 2000),
			build: func(u *gen.Universe, n int) (string, []string) {
				return strings.ReplaceAll(chain(u, n, "AND", nil), " ", strings.Repeat(" ", 40)), short
			}},
		{name: "mixed_case_chain", fns: allFns, quick: geo(30, 120, 500, 1500), thor: geo(30, 120, 500, 2000, 8000),
			build: func(u *gen.Universe, n int) (string, []string) {
				return chain(u, n, "OR", func(i int, id string) string {
					if i%2 == 0 {
						return strings.ToUpper(id)
					}
					return strings.ToLower(id)
				}), []string{"mit", "APACHE-2.0"}
			}},
		{name: "family_chain", fns: allFns, quick: geo(20, 80, 320, 900), thor: geo(20, 80, 320, 1300, 4000),
			build: func(u *gen.Universe, n int) (string, []string) {
				// every term is a member of a version family, the allowed entries are '+' forms: range comparisons dominate
				var e []string
				for i := 0; i < n; i++ {
					e = append(e, u.InTable[(i*3)%len(u.InTable)])
				}
				return strings.Join(e, " AND "), []string{"GPL-1.0+", "Apache-1.0+", "CC-BY-1.0+", "LGPL-2.0+", "OLDAP-1.1+", "MPL-1.0+"}
			}},
		{name: "error_at_end", fns: allFns, quick: geo(30, 120, 500, 1500), thor: geo(30, 120, 500, 2000, 8000),
			build: func(u *gen.Universe, n int) (string, []string) {
				return chain(u, n, "AND", func(i int, id string) string { return u.SynthBase[i%len(u.SynthBase)] + "-or-later" }) + " AND NOT-A-LICENSE", short
			}},
		{name: "long_allowed", fns: []string{"Satisfies", "ValidateLicenses"}, quick: geo(30, 120, 500, 1500), thor: geo(30, 120, 500, 2000, 8000),
			build: func(u *gen.Universe, n int) (string, []string) { return "MIT OR GPL-2.0-only", firstN(u, n) }},
		{name: "long_allowed_duplicates", fns: []string{"Satisfies", "ValidateLicenses"}, quick: geo(30, 120, 500, 1500), thor: geo(30, 120, 500, 2000, 8000),
			build: func(u *gen.Universe, n int) (string, []string) {
				l := make([]string, n)
				for i := range l {
					l[i] = []string{"GPL-2.0-or-later", "gpl-2.0+", "Apache-2.0", "(Apache-2.0)"}[i%4]
				}
				return "ISC OR GPL-3.0-only", l
			}},
		{name: "long_allowed_refs", fns: []string{"Satisfies", "ValidateLicenses"}, quick: geo(30, 120, 500, 1500), thor: geo(30, 120, 500, 2000, 8000),
			build: func(u *gen.Universe, n int) (string, []string) {
				l := make([]string, n)
				for i := range l {
					l[i] = fmt.Sprintf("DocumentRef-d%d:LicenseRef-r%d", i%7, i)
				}
				return "LicenseRef-r1 OR DocumentRef-d0:LicenseRef-zz", l
			}},
		{name: "long_allowed_with", fns: []string{"Satisfies"}, quick: geo(30, 120, 500, 1500), thor: geo(30, 120, 500, 2000, 8000),
			build: func(u *gen.Universe, n int) (string, []string) {
				l := make([]string, n)
				for i := range l {
					l[i] = idAt(u, i) + "+ WITH " + u.Exceptions[i%len(u.Exceptions)]
				}
				return "GPL-2.0-only WITH Classpath-exception-2.0 AND MIT", l
			}},
		{name: "long_both", fns: []string{"Satisfies"}, quick: geo(20, 80, 320), thor: geo(20, 80, 320, 640),
			build: func(u *gen.Universe, n int) (string, []string) {
				// one alternative of n terms; every term has to be searched for in the n allowed entries
				l := make([]string, n)
				for i := range l {
					l[i] = idAt(u, n-1-i)
				}
				return chain(u, n, "AND", nil), l
			}},
		{name: "long_both_family", fns: []string{"Satisfies"}, quick: geo(20, 80, 320), thor: geo(20, 80, 320, 640),
			build: func(u *gen.Universe, n int) (string, []string) {
				// every comparison goes through the range table: all terms are GPL/LGPL/CC family members with '+'
				var e, a []string
				for i := 0; i < n; i++ {
					e = append(e, u.InTable[i%len(u.InTable)])
					a = append(a, u.InTable[(n-1-i)%len(u.InTable)]+"+")
				}
				for i := range a {
					a[i] = strings.Replace(a[i], "-or-later+", "-or-later", 1)
				}
				return strings.Join(e, " AND "), a
			}},
		{name: "long_id", fns: allFns, quick: geo(1000, 10000, 100000), thor: geo(1000, 10000, 100000, 1000000),
			build: func(u *gen.Universe, n int) (string, []string) { return strings.Repeat("x", n), short }},
		{name: "long_ref", fns: allFns, quick: geo(1000, 10000, 100000), thor: geo(1000, 10000, 100000, 1000000),
			build: func(u *gen.Universe, n int) (string, []string) { return "LicenseRef-" + strings.Repeat("x", n), short }},
		{name: "spaces", fns: allFns, quick: geo(1000, 10000, 100000), thor: geo(1000, 10000, 100000, 1000000),
			build: func(u *gen.Universe, n int) (string, []string) {
				return "MIT" + strings.Repeat(" ", n) + "AND" + strings.Repeat(" ", n) + "ISC", short
			}},
		{name: "validate_many", fns: []string{"ValidateLicenses"}, quick: geo(30, 120, 500, 1500), thor: geo(30, 120, 500, 2000, 8000),
			build: func(u *gen.Universe, n int) (string, []string) { return "", firstN(u, n) }},
	}
}

type measurement struct {
	N       int     `json:"n"`
	Bytes   int     `json:"input_bytes"`
	Alloc   uint64  `json:"alloc_bytes"`
	Mallocs uint64  `json:"mallocs"`
	WallMs  float64 `json:"wall_ms"`
	CPUMs   float64 `json:"thread_cpu_ms"` // CPU time of the calling OS thread only (RUSAGE_THREAD): insensitive to machine load and to GC worker threads
	Outcome string  `json:"outcome"`
}

// threadCPU returns the CPU time (user+system) consumed so far by the calling OS thread.
func threadCPU() time.Duration {
	var ru syscall.Rusage
	if err := syscall.Getrusage(1 /* RUSAGE_THREAD */, &ru); err != nil {
		return 0
	}
	return time.Duration(ru.Utime.Nano() + ru.Stime.Nano())
}

// measure runs one call and returns what it allocated.
func measure(c *Ctx, fn, expr string, list []string) measurement {
	// warm-up with a different input so that one-time initialisation is not attributed to the call
	c.Sat("ISC", []string{"ISC"})
	in := len(expr)
	var m0, m1 runtime.MemStats
	var outcome string
	runtime.GC()
	runtime.LockOSThread()
	defer runtime.UnlockOSThread()
	runtime.ReadMemStats(&m0)
	c0 := threadCPU()
	t0 := time.Now()
	switch fn {
	case "Satisfies":
		for _, s := range list {
			in += len(s)
		}
		r := c.Sat(expr, list)
		outcome = r.String()
	case "ExtractLicenses":
		r := c.Ext(expr)
		outcome = fmt.Sprintf("%d terms err=%v", len(r.List), r.IsErr)
		if r.Panic != "" {
			outcome = "panic(" + r.Panic + ")"
		}
	case "ValidateLicenses":
		l := list
		if expr != "" {
			l = []string{expr}
		} else {
			in = 0
			for _, s := range list {
				in += len(s)
			}
		}
		r := c.Val(l)
		outcome = fmt.Sprintf("valid=%v", r.OK)
		if r.Panic != "" {
			outcome = "panic(" + r.Panic + ")"
		}
	}
	wall := time.Since(t0)
	cpu := threadCPU() - c0
	runtime.ReadMemStats(&m1)
	return measurement{Bytes: in, Alloc: m1.TotalAlloc - m0.TotalAlloc, Mallocs: m1.Mallocs - m0.Mallocs, WallMs: float64(wall.Microseconds()) / 1000,
		CPUMs: float64(cpu.Microseconds()) / 1000, Outcome: trunc(outcome, 60)}
}

func famKey(f family, fn, kind string) string {
	if f.product {
		return "dnf-product:" + f.name + ":" + fn
	}
	return kind + ":" + f.name + ":" + fn
}

// runLadder climbs one (family, function) ladder.
func runLadder(c *Ctx, f family, fn string, rungs []int) {
	var ms []measurement
	violated := false
	for _, n := range rungs {
		expr, list := f.build(c.U, n)
		c.Pending(famKey(f, fn, "crash"), CallCase{Fn: fn, Gen: nil, Expr: ev.QS(trunc(expr, 4000)), List: ev.QSs(list[:imin(len(list), 50)])}, "ladders")
		m := measure(c, fn, expr, list)
		c.ClearPending("ladders")
		m.N = n
		ms = append(ms, m)
		c.Inc("measurements")
		c.Distinct(gen.HashStr(f.name, fn, fmt.Sprint(n)))
		c.Max("alloc_bytes_"+f.name, int64(m.Alloc))
		c.Max("wall_ms", int64(m.WallMs))
		if strings.HasPrefix(m.Outcome, "panic") {
			c.Violation("panic:"+f.name+":"+fn, "C14.ladder", C14Case{Family: f.name, Fn: fn, N: []int{n}}, "%s(%s n=%d) panicked: %s", fn, f.name, n, m.Outcome)
			return
		}
		if m.Bytes <= c14AbsBytes && m.Alloc > c14AbsLimit {
			c.Violation(famKey(f, fn, "absolute"), "C14.ladder", C14Case{Family: f.name, Fn: fn, N: []int{n}},
				"%s on the %d-byte input %s(n=%d) allocated %d MiB (> %d MiB allowed for inputs of <= %d bytes) in %.0f ms; input starts %q",
				fn, m.Bytes, f.name, n, m.Alloc>>20, c14AbsLimit>>20, c14AbsBytes, m.WallMs, trunc(expr, 80))
			violated = true
		}
		c.Max("thread_cpu_ms_"+f.name, int64(m.CPUMs))
		if m.Bytes <= c14AbsBytes && m.CPUMs > c14CPUAbsMs {
			c.Violation(famKey(f, fn, "cpu-absolute"), "C14.ladder", C14Case{Family: f.name, Fn: fn, N: []int{n}},
				"%s on the %d-byte input %s(n=%d) used %.0f ms of CPU time on its thread (> %.0f ms allowed for inputs of <= %d bytes)", fn, m.Bytes, f.name, n, m.CPUMs, c14CPUAbsMs, c14AbsBytes)
			violated = true
		}
		if k := len(ms); k >= 2 && m.CPUMs >= c14CPUFloorMs {
			for j := k - 2; j >= 0; j-- {
				p := ms[j]
				if p.Bytes == 0 || float64(m.Bytes) < 3*float64(p.Bytes) {
					continue
				}
				// a smaller rung that was too fast to measure counts as 1 ms: that only lowers the exponent
				d := math.Log(m.CPUMs/math.Max(p.CPUMs, 1)) / math.Log(float64(m.Bytes)/float64(p.Bytes))
				c.Max("cpu_exponent_x100_"+f.name, int64(d*100))
				c.Inc("cpu_exponents_measured")
				if d > c14MaxExponent {
					c.Violation(famKey(f, fn, "cpu-growth"), "C14.ladder", C14Case{Family: f.name, Fn: fn, N: []int{p.N, n}},
						"%s on family %s: input %d -> %d bytes (n=%d -> %d) made thread CPU time grow %.0f -> %.0f ms: exponent %.1f > %.1f",
						fn, f.name, p.Bytes, m.Bytes, p.N, n, p.CPUMs, m.CPUMs, d, c14MaxExponent)
					violated = true
				}
				break
			}
		}
		if k := len(ms); k >= 2 && m.Alloc >= c14NoiseFloor {
			// compare with the closest earlier rung whose input is at least 3x smaller: a span that wide keeps
			// one-off effects (a slice capacity doubling between two neighbouring rungs) from mimicking a high exponent
			for j := k - 2; j >= 0; j-- {
				p := ms[j]
				if p.Alloc == 0 || p.Bytes == 0 || float64(m.Bytes) < 3*float64(p.Bytes) {
					continue
				}
				d := math.Log(float64(m.Alloc)/float64(p.Alloc)) / math.Log(float64(m.Bytes)/float64(p.Bytes))
				c.Max("exponent_x100_"+f.name, int64(d*100))
				c.Inc("exponents_measured")
				if !f.product {
					c.Max("exponent_x100_polynomial_families", int64(d*100))
				}
				if d > c14MaxExponent {
					c.Violation(famKey(f, fn, "growth"), "C14.ladder", C14Case{Family: f.name, Fn: fn, N: []int{p.N, n}},
						"%s on family %s: input %d -> %d bytes (n=%d -> %d) made allocation grow %d -> %d bytes: exponent %.1f > %.1f",
						fn, f.name, p.Bytes, m.Bytes, p.N, n, p.Alloc, m.Alloc, d, c14MaxExponent)
					violated = true
				}
				break
			}
		}
		if violated || m.Alloc > c14StopAbove || m.CPUMs > 20000 {
			break
		}
	}
	top := ms[len(ms)-1]
	reachedTop := top.N == rungs[len(rungs)-1]
	above := 0
	for _, m := range ms {
		if m.Alloc >= c14NoiseFloor {
			above++
		}
	}
	if reachedTop || above >= 2 || violated {
		c.Inc("ladders_complete")
	} else {
		c.Inc("ladders_incomplete")
		c.Note("ladder %s/%s stopped at n=%d without two rungs above the noise floor", f.name, fn, top.N)
	}
	c.Inc("ladders")
	if c.WantSample() || f.product {
		c.emitSampleAlways(map[string]any{"family": f.name, "function": fn, "rungs": ms})
	}
}

func (c *Ctx) emitSampleAlways(v any) {
	b, _ := json.Marshal(v)
	c.emit(ev.Event{T: "sample", Sample: b})
}

func imin(a, b int) int {
	if a < b {
		return a
	}
	return b
}

func replayC14(c *Ctx, rule string, raw json.RawMessage) {
	var cs C14Case
	if err := json.Unmarshal(raw, &cs); err != nil {
		fmt.Println("bad case:", err)
		return
	}
	if rule == "C14.absolute" {
		judgeAbsolute(c, cs)
		return
	}
	for _, f := range families() {
		if f.name == cs.Family {
			runLadder(c, f, cs.Fn, cs.N)
		}
	}
}

func judgeAbsolute(c *Ctx, cs C14Case) {
	expr, list := string(cs.Expr), ev.Strs(cs.Allowed)
	m := measure(c, cs.Fn, expr, list)
	c.Inc("absolute_measurements")
	c.Max("absolute_max_alloc_bytes", int64(m.Alloc))
	if strings.HasPrefix(m.Outcome, "panic") {
		return // C03's business
	}
	c.Max("absolute_max_thread_cpu_ms", int64(m.CPUMs))
	if m.Bytes <= c14AbsBytes && m.CPUMs > c14CPUAbsMs {
		c.Violation("cpu-absolute:random:"+cs.Fn+":"+trunc(expr, 40), "C14.absolute", cs, "%s on a %d-byte input used %.0f ms of thread CPU time (> %.0f ms): %q with %q", cs.Fn, m.Bytes, m.CPUMs, c14CPUAbsMs, expr, list)
	}
	if m.Bytes <= c14AbsBytes && m.Alloc > c14AbsLimit {
		c.Violation("absolute:random:"+cs.Fn+":"+trunc(expr, 40), "C14.absolute", cs, "%s on a %d-byte input allocated %d MiB (> %d MiB): %q with %q", cs.Fn, m.Bytes, m.Alloc>>20, c14AbsLimit>>20, expr, list)
	}
}

func runC14(c *Ctx, phase string) {
	fams := families()
	if phase == "absolute" {
		n := c.Pick(1500, 20000)
		for i := 0; i < n; i++ {
			if !c.Mine(i) {
				continue
			}
			// random expressions of at most 512 bytes whose OR-of-ANDs expansion stays below 4096
			// alternatives (the cross-product blow-up beyond that is the known finding, judged by the ladders)
			tc := genRandomTree(c, "C14", i, 4096)
			r := gen.NewRand(c.Seed, 0xC14, uint64(i))
			text := string(tc.Text)
			if len(text) > 480 {
				continue
			}
			var allowed []string
			for _, t := range tc.Terms {
				if r.Chance(1, 2) {
					allowed = append(allowed, t.Text())
				}
			}
			allowed = append(allowed, "MIT")
			fn := allFns[i%3]
			judgeAbsolute(c, C14Case{Fn: fn, Expr: ev.QS(text), Allowed: ev.QSs(allowed)})
			c.Distinct(gen.HashStr("abs", fn, text))
			c.Max("absolute_max_dnf", tc.Tree.DNFSize())
		}
		return
	}
	nLadders := 0
	for _, f := range fams {
		nLadders += len(f.fns)
	}
	c.Meta("one call per measurement in a single-goroutine child; bytes allocated = runtime.MemStats.TotalAlloc delta (deterministic, load independent; wall time recorded for information only). "+
		"Ladders over input families (AND/OR chains, repeated term, nesting depth, AND of n 2-way/3-way OR groups, alternating nests, OR of ANDs, AND chain times OR, -or-later chains, WITH chains, reference chains, parenthesised singletons, "+
		"long allowed list, long expression and list, long id / reference / spaces, ValidateLicenses over n elements) x functions; growth exponent ln(a2/a1)/ln(s2/s1) between a rung above the 8 MiB noise floor and the closest earlier rung at least 3x smaller must be <= 3.5; "+
		"no input of <= 512 bytes may allocate more than 64 MiB (ladders, plus seeded random expressions with bounded expansion). distinct = (family, function, n) or random input; every measurement is non-trivial",
		false, fmt.Sprintf("ladders=%d; top rung about %s bytes; random inputs for the absolute rule=%d", nLadders, map[bool]string{false: "10^4", true: "10^5"}[c.Thorough()], c.Pick(1500, 20000)),
		"allocation, not time, is the deciding quantity: time on a loaded machine is not a verdict", "a ladder stops at its first violating rung or above 1 GiB per call, so an exponential family costs seconds")
	c.Floor("ladders", int64(nLadders))
	c.Floor("ladders_complete", int64(nLadders))
	c.Floor("exponents_measured", 20)
	c.Floor("absolute_measurements", int64(c.Pick(1500, 20000)/2))
	li := 0
	for _, f := range fams {
		for _, fn := range f.fns {
			li++
			if li%c.NShards != c.Shard {
				continue
			}
			rungs := f.quick
			if c.Thorough() {
				rungs = f.thor
			}
			runLadder(c, f, fn, rungs)
		}
	}
}
