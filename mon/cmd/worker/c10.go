package main

import (
	"encoding/json"
	"fmt"
	"sort"
	"strings"

	"verif/mon/internal/ev"
	"verif/mon/internal/gen"
)

// C10 — expressions denoting the same Boolean function get the same verdict.
//
// Oracle (relational): e1 vs e2 = e1 after 1..6 Boolean-algebra rewrites, under every subset of the
// terms as allowed list; ExtractLicenses sets equal for term-preserving rewrites; composition laws.

func init() { register("C10", runC10, replayC10) }

type C10Case struct {
	Kind     string   `json:"kind"` // rewrite | compose
	Leaf     []ev.QS  `json:"leaf_text"`
	E1       ev.QS    `json:"e1"`
	E2       ev.QS    `json:"e2"`
	Op       string   `json:"op,omitempty"` // compose: AND | OR
	Rewrites []string `json:"rewrites,omitempty"`
	KeepsSet bool     `json:"keeps_term_set"`
	Allowed  []ev.QS  `json:"allowed,omitempty"` // nil: all subsets of Leaf
	MaxLists int      `json:"max_lists,omitempty"` // >0: an evenly spaced sample of that many subsets instead of all (large products)
}

var rewriteNames = []string{"commute", "reassociate", "idempotence", "absorption", "distribute", "factor"}

// applyRewrite tries one rewrite at a random node; returns its name or "".
func applyRewrite(root **gen.Node, r *gen.Rand, k int, maxDNF int64) (string, bool) {
	// pick the rule first, then the first position (from a random start) where it applies
	rw := r.Intn(6)
	size := (*root).Size()
	start := r.Intn(size)
	for off := 0; off < size; off++ {
		if name, keeps := applyRewriteAt(root, (start+off)%size, rw, r, k, maxDNF); name != "" {
			return name, keeps
		}
	}
	return "", true
}

func applyRewriteAt(root **gen.Node, pos, rw int, r *gen.Rand, k int, maxDNF int64) (string, bool) {
	slot := gen.Nth(root, pos)
	n := *slot
	keeps := true
	name := ""
	switch rw {
	case 0: // commute
		if n.IsLeaf() {
			return "", true
		}
		*slot = gen.Bin(n.Op, n.R, n.L)
		name = "commute"
	case 1: // re-associate
		if n.IsLeaf() {
			return "", true
		}
		if !n.L.IsLeaf() && n.L.Op == n.Op { // (A op B) op C -> A op (B op C)
			*slot = gen.Bin(n.Op, n.L.L, gen.Bin(n.Op, n.L.R, n.R))
			name = "reassociate"
		} else if !n.R.IsLeaf() && n.R.Op == n.Op { // A op (B op C) -> (A op B) op C
			*slot = gen.Bin(n.Op, gen.Bin(n.Op, n.L, n.R.L), n.R.R)
			name = "reassociate"
		} else {
			return "", true
		}
	case 2: // idempotence
		op := "and"
		if r.Chance(1, 2) {
			op = "or"
		}
		*slot = gen.Bin(op, n, n.Clone())
		name = "idempotence"
	case 3: // absorption: E -> E OR (E AND F) | E AND (E OR F)
		f := gen.RandomTree(r, gen.ShapeRandom, 1+r.Intn(3), k)
		if r.Chance(1, 2) {
			*slot = gen.Or(n, gen.And(n.Clone(), f))
		} else {
			*slot = gen.And(n, gen.Or(n.Clone(), f))
		}
		name = "absorption"
		keeps = false
	case 4: // distribute AND over OR: A AND (B OR C) -> (A AND B) OR (A AND C)
		if n.IsLeaf() || n.Op != "and" {
			return "", true
		}
		if !n.R.IsLeaf() && n.R.Op == "or" {
			*slot = gen.Or(gen.And(n.L, n.R.L), gen.And(n.L.Clone(), n.R.R))
			name = "distribute"
		} else if !n.L.IsLeaf() && n.L.Op == "or" {
			*slot = gen.Or(gen.And(n.L.L, n.R), gen.And(n.L.R, n.R.Clone()))
			name = "distribute"
		} else {
			return "", true
		}
	case 5: // factor: (A AND B) OR (A AND C) -> A AND (B OR C)
		if n.IsLeaf() || n.Op != "or" || n.L.IsLeaf() || n.R.IsLeaf() || n.L.Op != "and" || n.R.Op != "and" {
			return "", true
		}
		switch {
		case n.L.L.Equal(n.R.L):
			*slot = gen.And(n.L.L, gen.Or(n.L.R, n.R.R))
		case n.L.R.Equal(n.R.R):
			*slot = gen.And(gen.Or(n.L.L, n.R.L), n.L.R)
		case n.L.L.Equal(n.R.R):
			*slot = gen.And(n.L.L, gen.Or(n.L.R, n.R.L))
		case n.L.R.Equal(n.R.L):
			*slot = gen.And(n.L.R, gen.Or(n.L.L, n.R.R))
		default:
			return "", true
		}
		name = "factor"
	}
	if (*root).DNFSize() > maxDNF || (*root).Depth() > 30 {
		*slot = n // undo
		return "", true
	}
	return name, keeps
}

func subsetsOf(leaf []string) [][]string {
	k := len(leaf)
	var out [][]string
	for mask := 1; mask < 1<<k; mask++ {
		var a []string
		for i := 0; i < k; i++ {
			if mask&(1<<i) != 0 {
				a = append(a, leaf[i])
			}
		}
		out = append(out, a)
	}
	return out
}

func asSet(l []string) string {
	s := append([]string{}, l...)
	sort.Strings(s)
	var out []string
	for i, x := range s {
		if i == 0 || x != s[i-1] {
			out = append(out, x)
		}
	}
	return strings.Join(out, " | ")
}

func judgeC10(c *Ctx, cs C10Case) {
	leaf := ev.Strs(cs.Leaf)
	lists := subsetsOf(leaf)
	if cs.Allowed != nil {
		lists = [][]string{ev.Strs(cs.Allowed)}
	} else if cs.MaxLists > 0 && len(lists) > cs.MaxLists {
		var sample [][]string
		for j := 0; j < cs.MaxLists; j++ {
			sample = append(sample, lists[j*len(lists)/cs.MaxLists])
		}
		sample = append(sample, lists[len(lists)-1]) // all terms allowed
		lists = sample
	}
	e1, e2 := string(cs.E1), string(cs.E2)
	key := cs.Kind + ":" + strings.Join(cs.Rewrites, ",") + cs.Op + ":" + trunc(e1, 60)
	for _, a := range lists {
		one := cs
		one.Allowed = ev.QSs(a)
		if cs.Kind == "compose" {
			re, rf := c.Sat(e1, a), c.Sat(e2, a)
			comb := "(" + e1 + ") " + cs.Op + " (" + e2 + ")"
			rc := c.Sat(comb, a)
			c.Inc("compose_checks")
			if !re.Clean() || !rf.Clean() || !rc.Clean() {
				c.Violation(key, "C10.compose", one, "error/panic on valid input: %s / %s / %s for %q, %q, %q with %q", re, rf, rc, e1, e2, comb, a)
				return
			}
			want := re.OK && rf.OK
			if cs.Op == "OR" {
				want = re.OK || rf.OK
			}
			c.CountIf(want, "compose_true")
			c.CountIf(!want, "compose_false")
			if rc.OK != want {
				c.Violation(key, "C10.compose", one, "Satisfies(%q,%q)=%v but Satisfies(E)=%v %s Satisfies(F)=%v", comb, a, rc.OK, re.OK, cs.Op, rf.OK)
				return
			}
			continue
		}
		r1, r2 := c.Sat(e1, a), c.Sat(e2, a)
		c.Inc("rewrite_checks")
		c.CountIf(r1.Clean() && r1.OK, "verdict_true")
		c.CountIf(r1.Clean() && !r1.OK, "verdict_false")
		if !r1.Clean() || !r2.Clean() || r1.OK != r2.OK {
			c.Violation(key, "C10.rewrite", one, "Satisfies(%q,%q)=%s but after %v: Satisfies(%q,%q)=%s", e1, a, r1, cs.Rewrites, e2, a, r2)
			return
		}
	}
	if cs.Kind == "rewrite" && cs.KeepsSet {
		x1, x2 := c.Ext(e1), c.Ext(e2)
		c.Inc("extract_set_checks")
		if !x1.Clean() || !x2.Clean() || asSet(x1.List) != asSet(x2.List) {
			c.Violation(key+":extract", "C10.extract", cs, "ExtractLicenses(%q)=%s but after term-preserving rewrites %v ExtractLicenses(%q)=%s", e1, x1, cs.Rewrites, e2, x2)
		}
	}
}

func replayC10(c *Ctx, rule string, raw json.RawMessage) {
	var cs C10Case
	if err := json.Unmarshal(raw, &cs); err != nil {
		fmt.Println("bad case:", err)
		return
	}
	judgeC10(c, cs)
}

func runC10(c *Ctx, phase string) {
	n := c.Pick(8000, 80000)
	maxDNF := int64(c.Pick(256, 2048))
	c.Meta("e1 from the C01 tree generator (k<=6 terms); e2 = e1 after 1..6 seeded rewrites at random positions: commute, re-associate, idempotence, absorption, distribution of AND over OR (both directions), "+
		"plus redundant parentheses and extra spaces through independent renderings; both judged under all 2^k-1 subsets of the terms; ExtractLicenses sets compared for term-preserving rewrites; "+
		"composition laws Satisfies((E) AND (F),A) = Satisfies(E,A) and Satisfies(F,A), likewise OR. distinct = (e1 text, e2 text); non-trivial = at least one rewrite applied or a composition",
		false, fmt.Sprintf("pairs=%d; DNF<=%d", n, maxDNF), "purely relational: both sides go through the same library")
	for _, rn := range rewriteNames {
		c.Floor("rewrite_"+rn, 200)
	}
	c.Floor("pairs_differing_dnf_shape", 200)
	c.Floor("verdict_true", 5000)
	c.Floor("verdict_false", 5000)
	c.Floor("compose_true", 500)
	c.Floor("compose_false", 500)
	c.Floor("extract_set_checks", 500)
	c.Floor("big_product_pairs", 40)
	c.Floor("many_term_pairs", 200)

	// many distinct terms (65..160): rewrites that move the late terms to the front, re-associate and split the chain;
	// allowed lists = all / all but one / half, so that a term that silently stops counting changes the verdict
	nBig := c.Pick(300, 3000)
	for i := 0; i < nBig; i++ {
		if !c.Mine(i) {
			continue
		}
		bc := genBigCase(c, "C10", 2*i) // even indices are the many-terms mode
		r := gen.NewRand(c.Seed, 0xC10B, uint64(i))
		leaf := termTexts(bc.Terms)
		t2 := bc.Tree.Clone()
		var names []string
		for try := 0; try < 30 && len(names) < 4; try++ {
			if name, _ := applyRewriteAt(&t2, r.Intn(t2.Size()), []int{0, 1, 0, 1, 2}[r.Intn(5)], r, len(leaf), 4096); name != "" {
				names = append(names, name)
			}
		}
		// always commute at the root as well: the last operand becomes the first
		if !t2.IsLeaf() {
			t2 = gen.Bin(t2.Op, t2.R, t2.L)
			names = append(names, "commute")
		}
		cs := C10Case{Kind: "rewrite", Leaf: ev.QSs(leaf), Rewrites: names, KeepsSet: true,
			E1: bc.Text, E2: ev.QS(t2.Render(leaf, gen.RenderOpt{Paren: gen.ParenMinimal})), Allowed: ev.QSs(termTexts(bc.Allowed))}
		judgeC10(c, cs)
		// composition law on two halves of the term set
		if !bc.Tree.IsLeaf() {
			l := ev.QS(bc.Tree.L.Render(leaf, gen.RenderOpt{Paren: gen.ParenMinimal}))
			rr := ev.QS(bc.Tree.R.Render(leaf, gen.RenderOpt{Paren: gen.ParenMinimal}))
			judgeC10(c, C10Case{Kind: "compose", Leaf: ev.QSs(leaf), Op: strings.ToUpper(bc.Tree.Op), E1: l, E2: rr, Allowed: ev.QSs(termTexts(bc.Allowed))})
		}
		// ExtractLicenses sets of the two spellings
		x1, x2 := c.Ext(string(cs.E1)), c.Ext(string(cs.E2))
		if !x1.Clean() || !x2.Clean() || asSet(x1.List) != asSet(x2.List) {
			c.Violation("rewrite-big:extract", "C10.extract", cs, "ExtractLicenses differs between two spellings of a %d-term expression: %d vs %d terms", len(leaf), len(x1.List), len(x2.List))
		}
		c.Inc("many_term_pairs")
		c.Max("most_distinct_terms", int64(len(leaf)))
		c.Distinct(gen.HashStr("big", string(cs.E1), string(cs.E2)))
	}
	for i := 0; i < n; i++ {
		if !c.Mine(i) {
			continue
		}
		r := gen.NewRand(c.Seed, 0xC10, uint64(i))
		tc := genRandomTree(c, "C10", i, maxDNF)
		if len(tc.Terms) > 6 {
			tc.Terms = tc.Terms[:6]
			for _, li := range tc.Tree.Leaves(nil) {
				if li >= 6 {
					tc = nil
					break
				}
			}
			if tc == nil {
				continue
			}
		}
		leaf := make([]string, len(tc.Terms))
		for q, t := range tc.Terms {
			leaf[q] = t.Text()
		}
		k := len(leaf)
		if i%5 == 4 {
			// composition law
			f := gen.RandomTree(r, r.Intn(gen.NumShapes), 1+r.Intn(5), k)
			if f.DNFSize()*tc.Tree.DNFSize() > maxDNF {
				continue
			}
			op := "AND"
			if r.Chance(1, 2) {
				op = "OR"
			}
			cs := C10Case{Kind: "compose", Leaf: ev.QSs(leaf), Op: op,
				E1: ev.QS(tc.Tree.Render(leaf, gen.RenderOpt{Paren: r.Intn(3), R: r})),
				E2: ev.QS(f.Render(leaf, gen.RenderOpt{Paren: r.Intn(3), R: r}))}
			judgeC10(c, cs)
			c.Distinct(gen.HashStr("compose", string(cs.E1), string(cs.E2), op))
			continue
		}
		if i%64 == 7 && k >= 3 {
			// one large product: an AND of m two-way OR groups over the pool (128..512 alternatives in a single product),
			// code that switches strategy above an alternative-count threshold is reached only by such spellings
			m := 7 + r.Intn(3)
			var prod *gen.Node
			for g := 0; g < m; g++ {
				grp := gen.Or(gen.LeafN(r.Intn(k)), gen.LeafN(r.Intn(k)))
				if prod == nil {
					prod = grp
				} else if r.Chance(1, 2) {
					prod = gen.And(prod, grp)
				} else {
					prod = gen.And(grp, prod)
				}
			}
			tc.Tree = prod
			c.Inc("big_product_pairs")
		}
		t2 := tc.Tree.Clone()
		var names []string
		keeps := true
		want := 1 + r.Intn(6)
		for try := 0; try < 40 && len(names) < want; try++ {
			lim := maxDNF
			if i%64 == 7 {
				lim = 1024
			}
			name, kp := applyRewrite(&t2, r, k, lim)
			if name != "" {
				names = append(names, name)
				keeps = keeps && kp
				c.Inc("rewrite_" + name)
			}
		}
		a1, _ := tc.Tree.DNFCells()
		a2, _ := t2.DNFCells()
		c.CountIf(a1 != a2, "pairs_differing_dnf_shape")
		maxLists := 0
		if i%64 == 7 {
			maxLists = 10
		}
		cs := C10Case{Kind: "rewrite", Leaf: ev.QSs(leaf), Rewrites: names, KeepsSet: keeps, MaxLists: maxLists,
			E1: ev.QS(tc.Tree.Render(leaf, gen.RenderOpt{Paren: gen.ParenMinimal})),
			E2: ev.QS(t2.Render(leaf, gen.RenderOpt{Paren: []int{gen.ParenFull, gen.ParenRandom, gen.ParenMinimal}[r.Intn(3)], Spaces: r.Chance(1, 2), R: r}))}
		judgeC10(c, cs)
		c.Distinct(gen.HashStr("rewrite", string(cs.E1), string(cs.E2)))
		if c.WantSample() && len(names) >= 2 && k >= 3 {
			c.Sample(map[string]any{"e1": string(cs.E1), "e2": string(cs.E2), "rewrites": names, "allowed_lists": "all 2^k-1 subsets of the terms"})
		}
	}
}
