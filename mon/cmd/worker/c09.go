package main

import (
	"encoding/json"
	"fmt"
	"strings"

	"verif/mon/internal/ev"
	"verif/mon/internal/gen"
)

// C09 — letter case of SPDX identifiers never matters; output casing is canonical.
//
// Oracle (relational): the same call with a listed id in canonical spelling and in a case variant
// must agree (validity, Satisfies, and ExtractLicenses output, which must use the list's casing).

func init() { register("C09", runC09, replayC09) }

// C09Case: Expr / Allowed contain the placeholder where the id goes.
type C09Case struct {
	ID      string  `json:"id"`
	Variant string  `json:"variant"`
	IsExc   bool    `json:"is_exception,omitempty"`
	Expr    ev.QS   `json:"expr"`
	Allowed []ev.QS `json:"allowed"`
}

func judgeC09(c *Ctx, cs C09Case) {
	e1, e2 := fill(string(cs.Expr), cs.ID), fill(string(cs.Expr), cs.Variant)
	a1 := make([]string, len(cs.Allowed))
	a2 := make([]string, len(cs.Allowed))
	for i, a := range cs.Allowed {
		a1[i], a2[i] = fill(string(a), cs.ID), fill(string(a), cs.Variant)
	}
	key := "case:" + cs.ID
	c.Inc("contexts")
	v1, v2 := c.Valid(e1), c.Valid(e2)
	if v1 != v2 {
		c.Violation(key, "C09.validity", cs, "%q valid=%v but its case variant %q valid=%v", e1, v1, e2, v2)
		return
	}
	r1, r2 := c.Sat(e1, a1), c.Sat(e2, a2)
	c.CountIf(r1.Clean() && r1.OK, "result_true")
	c.CountIf(r1.Clean() && !r1.OK, "result_false")
	if r1.Panic != "" || r2.Panic != "" || r1.IsErr != r2.IsErr || r1.OK != r2.OK {
		c.Violation(key, "C09.satisfies", cs, "Satisfies(%q,%q)=%s but with the id spelled %q: Satisfies(%q,%q)=%s", e1, a1, r1, cs.Variant, e2, a2, r2)
		return
	}
	if v1 {
		x1, x2 := c.Ext(e1), c.Ext(e2)
		if !x1.Clean() || !x2.Clean() || !eqStrs(x1.List, x2.List) {
			c.Violation(key, "C09.extract", cs, "ExtractLicenses(%q)=%s but ExtractLicenses(%q)=%s: output must use the list's casing", e1, x1, e2, x2)
			return
		}
		c.Inc("extract_comparisons")
	}
}

// C09Long: a long expression in canonical spelling and with case variants of its later ids.
type C09Long struct {
	E1      ev.QS   `json:"canonical"`
	E2      ev.QS   `json:"variant"`
	Allowed []ev.QS `json:"allowed"`
}

func judgeC09Long(c *Ctx, cs C09Long) {
	e1, e2, allowed := string(cs.E1), string(cs.E2), ev.Strs(cs.Allowed)
	v1, v2 := c.Valid(e1), c.Valid(e2)
	s1, s2 := c.Sat(e1, allowed), c.Sat(e2, allowed)
	x1, x2 := c.Ext(e1), c.Ext(e2)
	c.Inc("long_expression_case_checks")
	if v1 != v2 || s1.IsErr != s2.IsErr || s1.OK != s2.OK || !eqStrs(x1.List, x2.List) {
		c.Violation("case:long-expression", "C09.long", cs,
			"a long expression (%d bytes) and the same expression with case variants of its later ids differ: valid %v/%v, Satisfies %s/%s, ExtractLicenses %d/%d terms", len(e1), v1, v2, s1, s2, len(x1.List), len(x2.List))
	}
}

func replayC09(c *Ctx, rule string, raw json.RawMessage) {
	if rule == "C09.long" {
		var cs C09Long
		if err := json.Unmarshal(raw, &cs); err != nil {
			fmt.Println("bad case:", err)
			return
		}
		judgeC09Long(c, cs)
		return
	}
	var cs C09Case
	if err := json.Unmarshal(raw, &cs); err != nil {
		fmt.Println("bad case:", err)
		return
	}
	if rule == "C09.table" {
		judgeC09Table(c)
		return
	}
	judgeC09(c, cs)
}

func caseVariants(id string, r *gen.Rand, nMixed int) []string {
	seen := map[string]bool{id: true}
	var out []string
	add := func(s string) {
		if !seen[s] {
			seen[s] = true
			out = append(out, s)
		}
	}
	add(strings.ToLower(id))
	add(strings.ToUpper(id))
	for i := 0; i < nMixed; i++ {
		b := []byte(id)
		for j, ch := range b {
			if r.Chance(1, 2) {
				if ch >= 'a' && ch <= 'z' {
					b[j] = ch - 32
				} else if ch >= 'A' && ch <= 'Z' {
					b[j] = ch + 32
				}
			}
		}
		add(string(b))
	}
	return out
}

// judgeC09Table: facts about the whole table the property depends on.
func judgeC09Table(c *Ctx) {
	u := c.U
	fold := map[string]string{}
	for _, l := range [][]string{u.Active, u.Deprecated, u.Exceptions} {
		for _, id := range l {
			f := strings.ToLower(id)
			if prev, ok := fold[f]; ok && prev != id {
				c.Violation("fold-collision:"+prev+"~"+id, "C09.table", C09Case{ID: id}, "listed ids %q and %q are equal up to letter case", prev, id)
			}
			fold[f] = id
		}
	}
	for _, id := range u.AllLicense {
		if strings.Contains(id, "+") {
			continue
		}
		for _, v := range []string{strings.ToUpper(id), strings.ToLower(id)} {
			if !c.Valid(v) {
				c.Violation("case-invalid:"+id, "C09.table", C09Case{ID: id, Variant: v}, "case variant %q of listed id %q is rejected", v, id)
			}
			c.Inc("table_case_checks")
		}
	}
	for _, e := range u.Exceptions {
		for _, v := range []string{strings.ToUpper(e), strings.ToLower(e)} {
			if s := "MIT WITH " + v; !c.Valid(s) {
				c.Violation("case-invalid:"+e, "C09.table", C09Case{ID: e, Variant: v, IsExc: true}, "%q is rejected: case variant of listed exception %q", s, e)
			}
			c.Inc("table_case_checks")
		}
	}
}

func runC09(c *Ctx, phase string) {
	u := c.U
	nMixed := c.Pick(8, 60)
	nCompound := c.Pick(2, 16)
	c.Meta("every listed license id and exception id x case variants (lower, UPPER, seeded random mixes) x contexts: alone as expression against allowed entries of its cluster (same id, cluster partners plain and +, unrelated), "+
		"as allowed entry, with '+', inside 'X WITH e' (license varied, and exception varied), and at a leaf of generated compound expressions with subsets of the terms as allowed lists; only the listed id is re-cased "+
		"(operators, LicenseRef-/DocumentRef- prefixes and names and harness-added suffixes keep their case). Also table-level facts: no two listed ids equal up to case; upper/lower form of every id is accepted. "+
		"distinct = (id, variant, context); every context is non-trivial",
		true, fmt.Sprintf("ids=%d licenses + %d exceptions; mixed variants per id=%d; compound contexts=%d", len(u.AllLicense), len(u.Exceptions), nMixed, nCompound),
		"purely relational: canonical spelling vs case variant through the same library")
	c.Floor("contexts", 20000)
	c.Floor("ids_checked", int64(len(u.AllLicense)+len(u.Exceptions)-len(u.DepPlusIDs)))
	c.Floor("extract_comparisons", 10000)
	c.Floor("result_true", 3000)
	c.Floor("result_false", 3000)
	c.Floor("long_expression_case_checks", 40)
	c.Floor("table_case_checks", int64(2*(len(u.AllLicense)-len(u.DepPlusIDs)+len(u.Exceptions))))

	if c.Shard == 0 {
		judgeC09Table(c)
	}
	cl := clusters(u)
	clusterOf := map[string][]string{}
	for _, g := range cl {
		for _, id := range g {
			clusterOf[id] = g
		}
	}
	idx := 0
	for _, id := range u.AllLicense {
		if strings.Contains(id, "+") {
			continue
		}
		idx++
		if !c.Mine(idx) {
			continue
		}
		c.Inc("ids_checked")
		r := gen.NewRand(c.Seed, 0xC09, gen.HashStr(id))
		partners := []string{id, r.Pick(u.Active), r.Pick(u.Active)}
		if g, ok := clusterOf[id]; ok {
			for j := 0; j < 6 && j < len(g); j++ {
				partners = append(partners, g[r.Intn(len(g))])
			}
		}
		exc := r.Pick(u.Exceptions)
		plusOK := u.SpellOK(id, gen.SpPlus)
		for _, v := range caseVariants(id, r, nMixed) {
			mk := func(expr string, allowed ...string) {
				cs := C09Case{ID: id, Variant: v, Expr: ev.QS(expr), Allowed: ev.QSs(allowed)}
				judgeC09(c, cs)
				c.Distinct(gen.HashStr(id, v, expr, strings.Join(allowed, "\x00")))
			}
			for _, p := range partners {
				mk(hole, p)
				mk(p, hole)
				if plusOK {
					mk(hole+"+", p)
					mk(p, hole+"+")
				}
				if u.SpellOK(p, gen.SpPlus) {
					mk(hole, p+"+")
				}
			}
			if u.SpellOK(id, gen.SpOnly) {
				// the case variant together with a synthesised suffix (the suffix itself keeps its case)
				mk(hole+"-only", id)
				mk(id, hole+"-only")
				mk(hole+"-or-later", partners[len(partners)-1])
				mk(partners[len(partners)-1], hole+"-or-later")
				mk(hole+"-or-later+ WITH "+exc, id+"+ WITH "+exc)
				mk(hole+"-only+", partners[len(partners)-1])
				mk(partners[len(partners)-1], hole+"-only+")
				mk(hole+"-or-later+", partners[len(partners)-1])
				mk(partners[len(partners)-1], hole+"-or-later+")
				mk("MIT AND "+hole+"-or-later+", "MIT", id)
				mk("("+hole+"-only) AND MIT", id, "MIT")
			}
			// two different case variants of the same id in one expression / one list
			mk(hole+" AND "+id, id)
			mk(hole+" OR "+strings.ToLower(id), strings.ToUpper(id))
			mk(id, "MIT", "ISC", hole, id)
			mk(id+" WITH "+exc, "MIT", hole+" WITH "+strings.ToUpper(exc), "ISC")
			mk(hole+" WITH "+exc, hole+" WITH "+exc)
			mk(hole+" WITH "+exc, id+" WITH "+exc)
			mk(hole+" WITH "+exc, id)
			mk("("+hole+")", id)
			mk(hole+" AND MIT", hole, "MIT")
			mk(hole+" OR MIT", "ISC", hole)
			for k := 0; k < nCompound; k++ {
				tc := genRandomTree(c, "C09-"+id, k, 128)
				leaf := tc.LeafTexts()
				at := r.Intn(len(leaf))
				leaf[at] = hole
				text := tc.Tree.Render(leaf, gen.RenderOpt{Paren: r.Intn(3), R: r})
				var allowed []string
				for q := range leaf {
					if r.Chance(2, 3) {
						allowed = append(allowed, leaf[q])
					}
				}
				if len(allowed) == 0 {
					allowed = []string{hole}
				}
				mk(text, allowed...)
				if c.WantSample() && len(leaf) >= 3 {
					c.Sample(map[string]any{"id": id, "variant": v, "expression_with_hole": strings.ReplaceAll(text, hole, "<ID>"), "allowed_with_hole": strings.ReplaceAll(fmt.Sprint(allowed), hole, "<ID>")})
				}
			}
		}
	}
	// very long expressions (600..900 ids): the ids beyond the first few hundred are case variants; must behave exactly
	// like the canonical spelling of the same expression
	for bi := 0; bi < 48; bi++ {
		if !c.Mine(bi) {
			continue
		}
		r := gen.NewRand(c.Seed, 0xC09B, uint64(bi))
		n := 600 + r.Intn(300)
		canon := make([]string, n)
		variant := make([]string, n)
		for i := range canon {
			id := u.ActPlain[r.Intn(len(u.ActPlain))]
			exc := ""
			if r.Chance(1, 6) {
				exc = r.Pick(u.Exceptions)
			}
			join := func(a, b string) string {
				if b == "" {
					return a
				}
				return a + " WITH " + b
			}
			canon[i], variant[i] = join(id, exc), join(id, exc)
			if i >= 300 && r.Chance(1, 2) {
				switch r.Intn(3) {
				case 0:
					variant[i] = join(strings.ToLower(id), strings.ToLower(exc))
				case 1:
					variant[i] = join(strings.ToUpper(id), strings.ToUpper(exc))
				default:
					variant[i] = join(caseVariants(id, r, 1)[0], exc)
				}
			}
		}
		op := []string{" AND ", " OR "}[bi%2]
		e1, e2 := strings.Join(canon, op), strings.Join(variant, op)
		allowed := []string{canon[n-1], canon[n/2], "MIT"}
		if bi%4 < 2 {
			allowed = canon[:n-1] // everything but the last term
		}
		judgeC09Long(c, C09Long{E1: ev.QS(e1), E2: ev.QS(e2), Allowed: ev.QSs(allowed)})
	}
	// exception ids: varied after WITH
	for _, e := range u.Exceptions {
		idx++
		if !c.Mine(idx) {
			continue
		}
		c.Inc("ids_checked")
		r := gen.NewRand(c.Seed, 0xC09E, gen.HashStr(e))
		lic := r.Pick(u.ActPlain)
		other := r.Pick(u.Exceptions)
		for _, v := range caseVariants(e, r, nMixed) {
			mk := func(expr string, allowed ...string) {
				cs := C09Case{ID: e, Variant: v, IsExc: true, Expr: ev.QS(expr), Allowed: ev.QSs(allowed)}
				judgeC09(c, cs)
				c.Distinct(gen.HashStr(e, v, expr, strings.Join(allowed, "\x00")))
			}
			mk(lic+" WITH "+hole, lic+" WITH "+hole)
			mk(lic+" WITH "+hole, lic+" WITH "+e)
			mk(lic+" WITH "+e, lic+" WITH "+hole)
			mk(lic+" WITH "+hole, lic)
			mk(lic+" WITH "+hole, lic+" WITH "+other)
			mk(lic+"+ WITH "+hole, lic+" WITH "+hole)
			mk("MIT AND ("+lic+" WITH "+hole+" OR ISC)", "MIT", lic+" WITH "+e)
			mk(hole, "MIT")           // an exception alone is invalid in every casing
			mk("MIT AND "+hole, "MIT") // and so is an exception without WITH
		}
	}
}
