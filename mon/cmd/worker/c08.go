package main

import (
	"encoding/json"
	"fmt"
	"strings"

	"verif/mon/internal/ev"
	"verif/mon/internal/gen"
)

// C08 — equivalent spellings of a license are interchangeable everywhere.
//
// Oracle (relational): for a listed id X and a spelling pair (X+, X-or-later) or (X, X-only), both
// valid: substituting one for the other at any position never changes validity or the result of
// Satisfies. For every active X all four spellings must be valid.

func init() { register("C08", runC08, replayC08) }

// C08Case is one substitution context. Hole marks where the spelling goes: in Expr (role "expr")
// or in Allowed[Pos] (role "allowed"); the text contains the placeholder "\x01".
type C08Case struct {
	ID      string  `json:"id"`
	Pair    string  `json:"pair"` // "later": X+ vs X-or-later; "only": X vs X-only
	Exc     string  `json:"exc,omitempty"`
	Expr    ev.QS   `json:"expr"`
	Allowed []ev.QS `json:"allowed"`
}

const hole = "\x01"

func spellings(id, pair string) (string, string) {
	if pair == "later" {
		return id + "+", id + "-or-later"
	}
	if pair == "onlyplus" { // "X" replaced by "X-only" inside the term "X+"
		return id + "+", id + "-only+"
	}
	return id, id + "-only"
}

func fill(s, sp string) string { return strings.ReplaceAll(s, hole, sp) }

func judgeC08(c *Ctx, cs C08Case) {
	s1, s2 := spellings(cs.ID, cs.Pair)
	if cs.Exc != "" {
		s1 += " WITH " + cs.Exc
		s2 += " WITH " + cs.Exc
	}
	e1, e2 := fill(string(cs.Expr), s1), fill(string(cs.Expr), s2)
	a1 := make([]string, len(cs.Allowed))
	a2 := make([]string, len(cs.Allowed))
	for i, a := range cs.Allowed {
		a1[i], a2[i] = fill(string(a), s1), fill(string(a), s2)
	}
	r1 := c.Sat(e1, a1)
	r2 := c.Sat(e2, a2)
	c.Inc("substitutions")
	c.CountIf(r1.Clean() && r1.OK, "result_true")
	c.CountIf(r1.Clean() && !r1.OK, "result_false")
	if r1.Panic != "" || r2.Panic != "" || r1.IsErr != r2.IsErr || r1.OK != r2.OK {
		c.Violation("spell:"+cs.ID+":"+cs.Pair, "C08.substitute", cs,
			"%q vs %q are not interchangeable: Satisfies(%q,%q)=%s but Satisfies(%q,%q)=%s", s1, s2, e1, a1, r1, e2, a2, r2)
	}
}

// C08Cross is a context holding BOTH an or-later spelling (hole \x01: X+ / X-or-later) and a plain spelling (hole \x02:
// X / X-only) of the same id; all four combinations must agree.
type C08Cross struct {
	ID      string  `json:"id"`
	Expr    ev.QS   `json:"expr"`
	Allowed []ev.QS `json:"allowed"`
}

const hole2 = "\x02"

func judgeC08Cross(c *Ctx, cs C08Cross) {
	var first SatRes
	var firstE string
	var firstA []string
	for combo := 0; combo < 4; combo++ {
		p, q := cs.ID+"+", cs.ID
		if combo&1 != 0 {
			p = cs.ID + "-or-later"
		}
		if combo&2 != 0 {
			q = cs.ID + "-only"
		}
		rep := strings.NewReplacer(hole, p, hole2, q)
		e := rep.Replace(string(cs.Expr))
		a := make([]string, len(cs.Allowed))
		for i, x := range cs.Allowed {
			a[i] = rep.Replace(string(x))
		}
		r := c.Sat(e, a)
		c.Inc("cross_substitutions")
		if combo == 0 {
			first, firstE, firstA = r, e, a
			continue
		}
		if r.Panic != "" || first.Panic != "" || r.IsErr != first.IsErr || r.OK != first.OK {
			c.Violation("spell:"+cs.ID+":cross", "C08.cross", cs, "spellings of %q are not interchangeable when both kinds occur together: Satisfies(%q,%q)=%s but Satisfies(%q,%q)=%s", cs.ID, firstE, firstA, first, e, a, r)
			return
		}
	}
}

func replayC08(c *Ctx, rule string, raw json.RawMessage) {
	if rule == "C08.multi" {
		var mc struct {
			ID      string
			E1, E2  ev.QS
			Allowed []ev.QS
		}
		if err := json.Unmarshal(raw, &mc); err != nil {
			fmt.Println("bad case:", err)
			return
		}
		r1, r2 := c.Sat(string(mc.E1), ev.Strs(mc.Allowed)), c.Sat(string(mc.E2), ev.Strs(mc.Allowed))
		fmt.Printf("Satisfies(%q,%q)=%s\nSatisfies(%q,%q)=%s\n", mc.E1, ev.Strs(mc.Allowed), r1, mc.E2, ev.Strs(mc.Allowed), r2)
		if r1.Panic != "" || r2.Panic != "" || r1.IsErr != r2.IsErr || r1.OK != r2.OK {
			c.Violation("spell:"+mc.ID+":multi", "C08.multi", mc, "replayed")
		}
		return
	}
	if rule == "C08.cross" {
		var cs C08Cross
		if err := json.Unmarshal(raw, &cs); err != nil {
			fmt.Println("bad case:", err)
			return
		}
		judgeC08Cross(c, cs)
		return
	}
	var cs C08Case
	if err := json.Unmarshal(raw, &cs); err != nil {
		fmt.Println("bad case:", err)
		return
	}
	if rule == "C08.validity" {
		judgeC08Validity(c, cs.ID)
		return
	}
	judgeC08(c, cs)
}

// judgeC08Validity: which pairs are valid; for active ids all four spellings must be.
func judgeC08Validity(c *Ctx, id string) (laterOK, onlyOK bool) {
	v := map[string]bool{}
	for _, s := range []string{id, id + "+", id + "-or-later", id + "-only"} {
		v[s] = c.Valid(s)
	}
	if c.U.ActiveSet[id] {
		for s, ok := range v {
			if !ok {
				c.Violation("valid:"+s, "C08.validity", C08Case{ID: id}, "%q is rejected although %q is on the active list (all of X, X+, X-only, X-or-later must be valid)", s, id)
			}
		}
		c.Inc("active_ids_checked")
	}
	return v[id+"+"] && v[id+"-or-later"], v[id] && v[id+"-only"]
}

func runC08(c *Ctx, phase string) {
	u := c.U
	nCompound := c.Pick(3, 20)
	c.Meta("every listed license id X (active and deprecated; ids that contain '+' excluded) x both spelling pairs (X+ / X-or-later, X / X-only) when both spellings are valid (all four must be for active X) x contexts: "+
		"as the whole expression against each allowed entry of its cluster (every id of the same table family or text stem, plain and +, with no / same / other exception, plus unrelated ids), the same with roles swapped, "+
		"and embedded at a leaf of generated compound expressions with complete truth tables; with and without a WITH exception on the substituted term. distinct = (id, pair, context); every substitution is non-trivial",
		true, fmt.Sprintf("ids=%d; compound contexts per id and pair=%d", len(u.AllLicense), nCompound),
		"contexts never append a further '+' to a spelling (X++ is unspecified, see C05)", "purely relational: no reference model")
	c.Floor("substitutions", 20000)
	c.Floor("active_ids_checked", int64(len(u.Active)))
	c.Floor("pairs_later_valid", int64(len(u.Active)))
	c.Floor("pairs_only_valid", int64(len(u.Active)))
	c.Floor("ids_with_cross_contexts", int64(len(u.Active)))
	c.Floor("long_list_substitutions", 300)
	c.Floor("multi_occurrence_substitutions", 20000)
	c.Floor("multi_occurrence_true", 500)
	c.Floor("multi_occurrence_false", 500)
	c.Floor("result_true", 2000)
	c.Floor("result_false", 2000)

	cl := clusters(u)
	clusterOf := map[string][]string{}
	for _, g := range cl {
		for _, id := range g {
			clusterOf[id] = g
		}
	}
	r0 := gen.NewRand(c.Seed, 0xC08)
	e1 := r0.Pick(u.Exceptions)
	e2 := r0.Pick(u.Exceptions)
	for e2 == e1 {
		e2 = r0.Pick(u.Exceptions)
	}
	idx := 0
	for _, id := range u.AllLicense {
		if strings.Contains(id, "+") {
			continue
		}
		idx++
		if !c.Mine(idx) {
			continue
		}
		laterOK, onlyOK := judgeC08Validity(c, id)
		c.CountIf(laterOK, "pairs_later_valid")
		c.CountIf(onlyOK, "pairs_only_valid")
		r := gen.NewRand(c.Seed, 0xC081, gen.HashStr(id))
		// partners: cluster members (or the id itself) in plain / + spelling, plus unrelated ids
		partners := []string{id}
		if g, ok := clusterOf[id]; ok {
			partners = g
			if len(partners) > 24 { // very large stems (CC-BY-*): the family members plus a seeded sample
				var keep []string
				for _, p := range partners {
					same := false
					for _, pa := range u.TablePos(p) {
						for _, pb := range u.TablePos(id) {
							same = same || pa.Family == pb.Family
						}
					}
					if same || p == id || r.Chance(1, 4) {
						keep = append(keep, p)
					}
				}
				partners = keep
			}
		}
		var partnerTerms []string
		for _, p := range partners {
			partnerTerms = append(partnerTerms, p)
			if u.SpellOK(p, gen.SpPlus) && !strings.HasSuffix(p, "-or-later") {
				partnerTerms = append(partnerTerms, p+"+")
			}
		}
		for j := 0; j < 4; j++ {
			partnerTerms = append(partnerTerms, r.Pick(u.Active))
		}
		if laterOK && onlyOK {
			// both kinds of spelling of the same id in ONE expression or ONE allowed list
			for j := 0; j < 6 && j < len(partnerTerms); j++ {
				p := partnerTerms[r.Intn(len(partnerTerms))]
				for _, t := range []C08Cross{
					{ID: id, Expr: ev.QS("(" + hole + " AND MIT) OR " + hole2), Allowed: []ev.QS{ev.QS(p)}},
					{ID: id, Expr: ev.QS(hole2 + " AND (" + hole + " OR MIT)"), Allowed: []ev.QS{ev.QS(p), "MIT"}},
					{ID: id, Expr: ev.QS(hole + " OR " + hole2), Allowed: []ev.QS{ev.QS(p)}},
					{ID: id, Expr: ev.QS(hole2 + " OR ISC OR " + hole), Allowed: []ev.QS{ev.QS(p)}},
					{ID: id, Expr: ev.QS(p), Allowed: []ev.QS{hole, hole2}},
					{ID: id, Expr: ev.QS(p), Allowed: []ev.QS{hole2, "MIT", hole}},
					{ID: id, Expr: ev.QS(hole + " WITH " + e1 + " OR " + hole2), Allowed: []ev.QS{ev.QS(p + " WITH " + e1)}},
					{ID: id, Expr: ev.QS(hole2 + " AND " + hole + " AND " + hole2), Allowed: []ev.QS{ev.QS(p), hole2}},
				} {
					judgeC08Cross(c, t)
				}
			}
			c.Inc("ids_with_cross_contexts")
		}
		onlyPlusOK := onlyOK && c.Valid(id+"+") && c.Valid(id+"-only+")
		if laterOK || onlyOK {
			// the same id several times in ONE expression with different modifiers (X, X+, X WITH e, ...), each occurrence
			// re-spelled independently (memos keyed by part of a term, de-duplication of "equal" terms)
			type occ struct {
				plus bool
				exc  string
			}
			occs := []occ{{false, ""}, {true, ""}, {false, e1}, {true, e1}, {false, e2}}
			variants := func(o occ) []string {
				var v []string
				if o.plus {
					v = append(v, id+"+")
					if laterOK {
						v = append(v, id+"-or-later")
					}
					if onlyPlusOK {
						v = append(v, id+"-only+")
					}
				} else {
					v = append(v, id)
					if onlyOK {
						v = append(v, id+"-only")
					}
				}
				if o.exc != "" {
					for i := range v {
						v[i] += " WITH " + o.exc
					}
				}
				return v
			}
			lists := [][]string{{id}, {id + "+"}, {id + " WITH " + e1}, {r.Pick(partnerTerms)}, {r.Pick(partnerTerms), id + " WITH " + e1}}
			for j := 0; j < 12; j++ {
				o1, o2 := occs[r.Intn(len(occs))], occs[r.Intn(len(occs))]
				if o1 == o2 {
					continue
				}
				tmpl := []string{"%s AND %s", "%s OR %s", "%s AND (%s OR MIT)", "(%s OR ISC) AND %s"}[r.Intn(4)]
				v1, v2 := variants(o1), variants(o2)
				for _, list := range lists {
					var first SatRes
					var firstE string
					for x, s1 := range v1 {
						for y, s2 := range v2 {
							e := fmt.Sprintf(tmpl, s1, s2)
							res := c.Sat(e, list)
							c.Inc("multi_occurrence_substitutions")
							if x == 0 && y == 0 {
								first, firstE = res, e
								c.CountIf(res.Clean() && res.OK, "multi_occurrence_true")
								c.CountIf(res.Clean() && !res.OK, "multi_occurrence_false")
								continue
							}
							if res.Panic != "" || first.Panic != "" || res.IsErr != first.IsErr || res.OK != first.OK {
								c.Violation("spell:"+id+":multi", "C08.multi", map[string]any{"id": id, "e1": ev.QS(firstE), "e2": ev.QS(e), "allowed": ev.QSs(list)},
									"re-spelling one occurrence of %q changes the verdict: Satisfies(%q,%q)=%s but Satisfies(%q,%q)=%s", id, firstE, list, first, e, list, res)
							}
						}
					}
				}
			}
		}
		for _, pair := range []string{"later", "only", "onlyplus"} {
			if (pair == "later" && !laterOK) || (pair == "only" && !onlyOK) || (pair == "onlyplus" && !onlyPlusOK) {
				c.Inc("pairs_skipped_one_spelling_invalid")
				continue
			}
			for _, exc := range []string{"", e1} {
				for _, p := range partnerTerms {
					for _, pexc := range []string{"", e1, e2} {
						if exc == "" && pexc == e2 {
							continue
						}
						pt := p
						if pexc != "" {
							pt += " WITH " + pexc
						}
						for _, swap := range []bool{false, true} {
							cs := C08Case{ID: id, Pair: pair, Exc: exc}
							if swap {
								cs.Expr, cs.Allowed = ev.QS(pt), []ev.QS{hole}
							} else {
								cs.Expr, cs.Allowed = hole, []ev.QS{ev.QS(pt)}
							}
							judgeC08(c, cs)
							c.Distinct(gen.HashStr(id, pair, exc, pt, fmt.Sprint(swap)))
						}
					}
				}
				// the spelling as one entry of a long allowed list, and as the expression against a long list
				if exc == "" && (len(u.TablePos(id)) > 0 || idx%8 == 0) {
					long := make([]ev.QS, 0, 302)
					for i := 0; len(long) < 300; i++ {
						long = append(long, ev.QS(u.ActPlain[(i*11+len(id))%len(u.ActPlain)]))
					}
					for _, p := range partnerTerms[:imin(2, len(partnerTerms))] {
						judgeC08(c, C08Case{ID: id, Pair: pair, Expr: ev.QS(p), Allowed: append(append([]ev.QS{}, long...), hole)})
						judgeC08(c, C08Case{ID: id, Pair: pair, Expr: hole, Allowed: append(append([]ev.QS{}, long...), ev.QS(p))})
						c.Inc("long_list_substitutions")
					}
				}
				// embedded in compound expressions, complete truth table over the other terms + the hole
				for k := 0; k < nCompound; k++ {
					tc := genRandomTree(c, "C08-"+id+pair+exc, k, 128)
					leaf := tc.LeafTexts()
					at := r.Intn(len(leaf))
					leaf[at] = hole
					rr := gen.NewRand(c.Seed, 0xC082, gen.HashStr(id), uint64(k))
					text := tc.Tree.Render(leaf, gen.RenderOpt{Paren: rr.Intn(3), Spaces: rr.Chance(1, 2), R: rr})
					kk := len(leaf)
					for mask := 1; mask < 1<<kk; mask++ {
						var allowed []ev.QS
						for q := 0; q < kk; q++ {
							if mask&(1<<q) != 0 {
								allowed = append(allowed, ev.QS(leaf[q]))
							}
						}
						// the spelling in the allowed list is substituted too (the hole entry), or replaced by a cluster partner
						cs := C08Case{ID: id, Pair: pair, Exc: exc, Expr: ev.QS(text), Allowed: allowed}
						judgeC08(c, cs)
					}
					// hole only in the expression, partner in the list
					p := partnerTerms[rr.Intn(len(partnerTerms))]
					var allowed []ev.QS
					for q := 0; q < kk; q++ {
						if q == at {
							allowed = append(allowed, ev.QS(p))
						} else if rr.Chance(2, 3) {
							allowed = append(allowed, ev.QS(leaf[q]))
						}
					}
					cs := C08Case{ID: id, Pair: pair, Exc: exc, Expr: ev.QS(text), Allowed: allowed}
					judgeC08(c, cs)
					c.Distinct(gen.HashStr(id, pair, exc, text))
					if c.WantSample() && kk >= 3 {
						c.Sample(map[string]any{"id": id, "pair": pair, "expression_with_hole": strings.ReplaceAll(text, hole, "<X>"), "allowed_with_hole": strings.ReplaceAll(fmt.Sprint(ev.Strs(allowed)), hole, "<X>")})
					}
				}
			}
		}
	}
}
