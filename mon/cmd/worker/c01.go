package main

import (
	"encoding/json"
	"fmt"
	"strings"

	"verif/mon/internal/ev"
	"verif/mon/internal/gen"
	"verif/mon/internal/ref"
)

// C01 — Satisfies returns the Boolean truth of the expression under the allowed list.
//
// Oracle: eval(tree, tau) where tau(t) = exists b in A: Satisfies(text(t), [b]) (observed, as the
// property defines it), compared with Satisfies(text(tree), A).

func init() { register("C01", runC01, replayC01) }

// SatCase is one judged call.
type SatCase struct {
	Tree    *TreeCase `json:"tree_case"`
	Allowed []ev.QS   `json:"allowed"`
}

// matchCache memoises single-term calls Satisfies(a, [b]) within one tree case.
type matchCache struct {
	c *Ctx
	m map[[2]string]SatRes
}

func (mc *matchCache) get(a, b string) SatRes {
	k := [2]string{a, b}
	if r, ok := mc.m[k]; ok {
		return r
	}
	r := mc.c.Sat(a, []string{b})
	mc.m[k] = r
	return r
}

// judgeSat compares one Satisfies(text, allowed) with the reference evaluation.
func judgeSat(c *Ctx, mc *matchCache, tc *TreeCase, allowed []string) {
	leaf := tc.LeafTexts()
	tau := make([]bool, len(leaf))
	for i, lt := range leaf {
		for _, b := range allowed {
			r := mc.get(lt, b)
			if !r.Clean() {
				c.Violation("single-term-call:"+lt+"~"+b, "C01.leaf", SatCase{tc, ev.QSs(allowed)},
					"single-term call Satisfies(%q,[%q]) of valid terms returned %s", lt, b, r)
				return
			}
			if r.OK {
				tau[i] = true
				break
			}
		}
	}
	want := tc.Tree.Eval(tau)
	got := c.Sat(string(tc.Text), allowed)
	c.CountIf(want, "expected_true")
	c.CountIf(!want, "expected_false")
	if !got.Clean() || got.OK != want {
		c.Violation("eval:"+treeKey(tc), "C01.eval", SatCase{tc, ev.QSs(allowed)},
			"Satisfies(%q, %q) = %s, Boolean reading of the expression under tau=%v gives %v", tc.Text, allowed, got, tau, want)
	}
}

// judgeBig judges one large-scale case: leaf truth from the matching model (C02's reference), evaluation by the tree.
func judgeBig(c *Ctx, bc *BigCase) {
	u := c.U
	dens := make([]gen.Den, len(bc.Allowed))
	for i, a := range bc.Allowed {
		dens[i] = a.Denote(u)
	}
	tau := make([]bool, len(bc.Terms))
	for i, t := range bc.Terms {
		dt := t.Denote(u)
		for _, da := range dens {
			switch ref.Match(u, dt, da) {
			case ref.Yes:
				tau[i] = true
			case ref.Ambiguous:
				c.Inc("big_cases_skipped_ambiguous_table_id")
				return
			}
			if tau[i] {
				break
			}
		}
	}
	want := bc.Tree.Eval(tau)
	allowed := termTexts(bc.Allowed)
	got := c.Sat(string(bc.Text), allowed)
	c.Inc("big_" + strings.ReplaceAll(bc.Mode, "-", "_"))
	c.CountIf(want, "big_expected_true")
	c.CountIf(!want, "big_expected_false")
	c.Max("big_distinct_terms", int64(len(bc.Terms)))
	c.Max("big_allowed_entries", int64(len(bc.Allowed)))
	c.Distinct(gen.HashStr("big", string(bc.Text), strings.Join(allowed, "\x00")))
	if !got.Clean() || got.OK != want {
		c.Violation("eval-big:"+bc.Mode, "C01.big", bc, "Satisfies(<%d distinct terms>, <%d allowed entries>) = %s, the Boolean reading under the matching model gives %v; expression starts %q, list starts %q",
			len(bc.Terms), len(bc.Allowed), got, want, trunc(string(bc.Text), 120), allowed[:imin(4, len(allowed))])
	}
}

func replayC01(c *Ctx, rule string, raw json.RawMessage) {
	if rule == "C01.population" {
		var pc struct{ Index, N, Dropped int }
		if err := json.Unmarshal(raw, &pc); err != nil {
			fmt.Println("bad case:", err)
			return
		}
		pop := genPopulation(c, "C01", pc.Index, pc.N)
		list := pop
		if pc.Dropped > 0 {
			list = append(append([]string{}, pop[:pc.Dropped-1]...), pop[pc.Dropped:]...)
		}
		got := c.Sat(strings.Join(pop, " AND "), list)
		fmt.Printf("Satisfies(AND of %d references, %d entries) = %s, want %v\n", len(pop), len(list), got, pc.Dropped == 0)
		if !got.Clean() || got.OK != (pc.Dropped == 0) {
			c.Violation("eval-population", "C01.population", pc, "replayed")
		}
		return
	}
	if rule == "C01.big" {
		var bc BigCase
		if err := json.Unmarshal(raw, &bc); err != nil {
			fmt.Println("bad case:", err)
			return
		}
		judgeBig(c, &bc)
		return
	}
	var sc SatCase
	if err := json.Unmarshal(raw, &sc); err != nil {
		fmt.Println("bad case:", err)
		return
	}
	mc := &matchCache{c, map[[2]string]SatRes{}}
	judgeSat(c, mc, sc.Tree, ev.Strs(sc.Allowed))
}

// judgeTreeAllSubsets runs the complete truth table: every non-empty subset of the pool terms as
// allowed list, plus lists with unrelated / duplicated / re-spelled / related extras.
func judgeTreeAllSubsets(c *Ctx, tc *TreeCase, r *gen.Rand, extras int) {
	leaf := tc.LeafTexts()
	k := len(leaf)
	mc := &matchCache{c, map[[2]string]SatRes{}}
	for mask := 1; mask < 1<<k; mask++ {
		var allowed []string
		for i := 0; i < k; i++ {
			if mask&(1<<i) != 0 {
				allowed = append(allowed, leaf[i])
			}
		}
		judgeSat(c, mc, tc, allowed)
		if k >= 2 && tc.Tree != nil && !tc.Tree.IsLeaf() {
			c.Distinct(gen.HashStr(string(tc.Text), strings.Join(allowed, "\x00")))
		}
	}
	for e := 0; e < extras; e++ {
		var allowed []string
		for i := 0; i < k; i++ {
			if r.Chance(1, 2) {
				allowed = append(allowed, leaf[i])
			}
		}
		n := 1 + r.Intn(3)
		if e == extras-1 && tc.Index%8 == 0 {
			// a long list (implementations may switch strategy above a size threshold): 10..90 further entries
			n = 10 + r.Intn(80)
			c.Inc("long_allowed_lists")
		}
		for j := 0; j < n; j++ {
			switch r.Intn(4) {
			case 0: // unrelated
				allowed = append(allowed, c.U.RandomTerm(r).Text())
				c.Inc("lists_with_unrelated_extra")
			case 1: // duplicate
				if len(allowed) > 0 {
					allowed = append(allowed, allowed[r.Intn(len(allowed))])
					c.Inc("lists_with_duplicate")
				}
			case 2: // re-spelled (case / parentheses / spaces)
				t := tc.Terms[r.Intn(k)]
				t.Case = 1 + r.Intn(3)
				t.CaseKey = r.U64()
				s := t.Text()
				if r.Chance(1, 3) {
					s = "(" + s + ")"
				}
				allowed = append(allowed, s)
				c.Inc("lists_with_respelled")
			default: // related (other version of the family, other exception ...)
				allowed = append(allowed, relatedTerm(c.U, r, tc.Terms[r.Intn(k)]).Text())
				c.Inc("lists_with_related")
			}
		}
		if len(allowed) == 0 {
			continue
		}
		// shuffle
		p := r.Perm(len(allowed))
		sh := make([]string, len(allowed))
		for i, j := range p {
			sh[i] = allowed[j]
		}
		judgeSat(c, mc, tc, sh)
		c.Distinct(gen.HashStr(string(tc.Text), strings.Join(sh, "\x00")))
	}
}

// exhaustive small trees ---------------------------------------------------------------------

// leaf kinds for the exhaustive part
const (
	lkLicense = iota
	lkPlusFamily
	lkRef
)

// exhaustiveTerms picks n pairwise different terms of the requested kinds.
func exhaustiveTerms(u *gen.Universe, r *gen.Rand, kinds []int) []gen.Term {
	out := make([]gen.Term, 0, len(kinds))
	seen := map[string]bool{}
	for _, k := range kinds {
		for {
			var t gen.Term
			switch k {
			case lkLicense:
				t = gen.Term{ID: r.Pick(u.NotInTable)}
				if strings.Contains(t.ID, "+") {
					continue
				}
			case lkPlusFamily:
				t = gen.Term{ID: r.Pick(u.InTable)}
				if u.SpellOK(t.ID, gen.SpPlus) && !strings.HasSuffix(t.ID, "-or-later") {
					t.Spell = gen.SpPlus
				}
			case lkRef:
				t = gen.Term{Ref: true, LicRef: r.Pick(gen.RefNames)}
				if r.Chance(1, 3) {
					t.DocRef = r.Pick(gen.RefNames)
				}
			}
			if tx := t.Text(); !seen[tx] {
				seen[tx] = true
				out = append(out, t)
				break
			}
		}
	}
	return out
}

func runC01(c *Ctx, phase string) {
	c.Meta("expression trees built by the harness (exhaustive: every binary shape x AND/OR labelling x leaf kind in {license, family license with +, LicenseRef} "+
		"up to n leaves, rendered fully parenthesised and minimally parenthesised; random: k<=7 distinct terms of every kind, 6 shape classes, depth<=24, DNF bounded) x every non-empty subset "+
		"of the tree's terms as allowed list (complete truth table) plus lists with unrelated/duplicate/re-spelled/related extras; a case is distinct by (expression text, allowed list) and "+
		"non-trivial when the tree has an operator and >=2 distinct terms",
		false, fmt.Sprintf("exhaustive n<=%d leaves; random trees %d; k<=7; DNF<=%d", c.Pick(4, 5), c.Pick(8000, 60000), c.Pick(512, 4096)),
		"leaf truth tau is observed through single-term calls Satisfies(t,[b]) of the same library (C02 judges those against an independent reference)",
		"same-operator chains are printed flat: associativity does not change the Boolean function")
	c.Floor("expected_true", 1000)
	c.Floor("expected_false", 1000)
	c.Floor("trees_or_under_and_under_or", 1)
	c.Floor("long_allowed_lists", 100)
	c.Floor("collision_pool_trees", 300)
	c.Floor("big_many_terms", 100)
	c.Floor("big_long_list", 100)
	c.Floor("big_expected_true", 50)
	c.Floor("big_expected_false", 50)
	c.Floor("trees_with_64plus_alternatives", 20)
	c.Floor("big_huge_product", int64(c.Pick(0, 32)))
	c.Floor("population_calls", int64(c.Pick(48, 800)))
	for _, s := range []string{"left_chain", "right_chain", "balanced", "or_and_or", "andchain_x_or", "random", "long_chain"} {
		c.Floor("shape_"+s, 10)
	}
	for _, k := range []string{"plain", "plus", "plain_with", "synth_only", "synth_later", "ref", "docref", "listed_later", "listed_only", "deprecated"} {
		c.Floor("kind_"+k+"_under_and", 5)
		c.Floor("kind_"+k+"_under_or", 5)
	}

	// (i) exhaustive small trees
	maxN := c.Pick(4, 5)
	idx := 0
	for n := 1; n <= maxN; n++ {
		shapes := gen.AllShapes(n)
		nk := 1
		for i := 0; i < n; i++ {
			nk *= 3
		}
		for si, sh := range shapes {
			for ka := 0; ka < nk; ka++ {
				idx++
				if !c.Mine(idx) {
					continue
				}
				kinds := make([]int, n)
				for i, v := 0, ka; i < n; i++ {
					kinds[i] = v % 3
					v /= 3
				}
				r := gen.NewRand(c.Seed, 0xC01E, uint64(n), uint64(si), uint64(ka))
				terms := exhaustiveTerms(c.U, r, kinds)
				leaf := make([]string, n)
				for i, t := range terms {
					leaf[i] = t.Text()
				}
				for _, paren := range []int{gen.ParenFull, gen.ParenMinimal} {
					text := sh.Render(leaf, gen.RenderOpt{Paren: paren})
					tc := &TreeCase{Index: idx, Source: "exhaustive", Terms: terms, Leaf: ev.QSs(leaf), Tree: sh, Paren: paren, Text: ev.QS(text)}
					judgeTreeAllSubsets(c, tc, r, 0)
					c.Inc("exhaustive_trees")
					if tc.Tree.HasOrUnderAndUnderOr() {
						c.Inc("trees_or_under_and_under_or")
					}
					if c.WantSample() && n >= 3 && idx%97 == 0 {
						c.Sample(map[string]any{"expression": text, "terms": leaf, "allowed_lists": "all 2^n-1 subsets of terms"})
					}
				}
			}
		}
	}
	// (iv) terms whose canonical strings are concatenations / prefixes of one another (keys built by joining strings without
	// a separator, prefix-based lookups): complete truth tables over a fixed pool of such references and ids
	collide := collisionPool(c.U)
	for i := 0; i < c.Pick(600, 6000); i++ {
		if !c.Mine(i) {
			continue
		}
		r := gen.NewRand(c.Seed, 0xC01C, uint64(i))
		k := 3 + r.Intn(4)
		perm := r.Perm(len(collide))
		terms := make([]gen.Term, k)
		leaf := make([]string, k)
		for j := 0; j < k; j++ {
			terms[j] = collide[perm[j]]
			leaf[j] = terms[j].Text()
		}
		tree := gen.RandomTree(r, r.Intn(gen.NumShapes), k+r.Intn(3), k)
		if tree.DNFSize() > 256 {
			continue
		}
		paren := r.Intn(3)
		tc := &TreeCase{Index: i, Source: "collision-pool", Terms: terms, Leaf: ev.QSs(leaf), Tree: tree, Paren: paren,
			Text: ev.QS(tree.Render(leaf, gen.RenderOpt{Paren: paren, R: r}))}
		judgeTreeAllSubsets(c, tc, r, 1)
		c.Inc("collision_pool_trees")
	}
	// (iii) large scale: 65..160 distinct terms, or 256..700 allowed entries (leaf truth from the matching model)
	nBig := c.Pick(600, 6000)
	for i := 0; i < nBig; i++ {
		if c.Mine(i) {
			judgeBig(c, genBigCase(c, "C01", i))
		}
	}
	// (v) products beyond 2^16 alternatives (an implementation may switch strategy by predicted size): AND of 17 two-way groups
	// and 1..3 single terms in every arrangement, incl. "... AND x AND (c OR d)"; one library call costs minutes (D10), so thorough only
	for i := 0; i < c.Pick(0, 32); i++ { // thorough only: 0.5..2 min per call
		if c.Mine(i) {
			judgeBig(c, genHugeProduct(c, i))
		}
	}
	// (vi) populations: AND of 5000 distinct random references against the list of all of them / all but one
	for i := 0; i < c.Pick(24, 400); i++ {
		if !c.Mine(i) {
			continue
		}
		pop := genPopulation(c, "C01", i, 5000)
		r := gen.NewRand(c.Seed, 0xC01D, uint64(i))
		text := strings.Join(pop, " AND ")
		miss := r.Intn(len(pop))
		less := append(append([]string{}, pop[:miss]...), pop[miss+1:]...)
		for k, list := range [][]string{pop, less} {
			want := k == 0
			got := c.Sat(text, list)
			c.Inc("population_calls")
			if !got.Clean() || got.OK != want {
				c.Violation("eval-population", "C01.population", map[string]any{"tag": "C01", "index": i, "n": 5000, "dropped": k * (miss + 1)},
					"Satisfies(AND of %d distinct references, the same references%s) = %s, want %v; expression starts %q", len(pop),
					map[bool]string{true: "", false: " without " + pop[miss]}[want], got, want, trunc(text, 100))
			}
		}
		c.Distinct(gen.HashStr("pop", text))
	}
	// (ii) random trees
	nRandom := c.Pick(8000, 60000)
	for i := 0; i < nRandom; i++ {
		if !c.Mine(i) {
			continue
		}
		tc := genRandomTree(c, "C01", i, int64(c.Pick(512, 4096)))
		r := gen.NewRand(c.Seed, 0xC01F, uint64(i))
		c.countTreeCoverage(tc)
		judgeTreeAllSubsets(c, tc, r, 4)
		c.Inc("random_trees")
		if c.WantSample() && len(tc.Terms) >= 3 {
			c.Sample(map[string]any{"expression": string(tc.Text), "terms": tc.LeafTexts(), "allowed_lists": "all 2^k-1 subsets + 4 lists with extras"})
		}
	}
}

// genHugeProduct builds an AND of 17 (a OR b) groups and 1..3 single terms over distinct plain ids: 2^17 alternatives.
func genHugeProduct(c *Ctx, i int) *BigCase {
	r := gen.NewRand(c.Seed, 0xC01B, uint64(i))
	const groups = 17
	singles := 1 + r.Intn(3)
	terms := distinctTerms(c.U, r, 2*groups+singles, true)
	type item struct{ a, b int } // b < 0: single term
	var items []item
	for g := 0; g < groups; g++ {
		items = append(items, item{2 * g, 2*g + 1})
	}
	for s := 0; s < singles; s++ {
		items = append(items, item{2*groups + s, -1})
	}
	switch i % 3 {
	case 0: // single terms first, then the groups
		items = append(items[groups:], items[:groups]...)
	case 1: // groups, the single terms, one group last
		items = append(items[1:], items[0])
	default:
		perm := r.Perm(len(items))
		sh := make([]item, len(items))
		for x, y := range perm {
			sh[x] = items[y]
		}
		items = sh
	}
	var tree *gen.Node
	for _, it := range items {
		n := gen.LeafN(it.a)
		if it.b >= 0 {
			n = gen.Or(gen.LeafN(it.a), gen.LeafN(it.b))
		}
		if tree == nil {
			tree = n
		} else {
			tree = gen.And(tree, n)
		}
	}
	leaf := termTexts(terms)
	bc := &BigCase{Mode: "huge-product", Terms: terms, Tree: tree, Text: ev.QS(tree.Render(leaf, gen.RenderOpt{Paren: gen.ParenMinimal}))}
	drop := map[int]bool{}
	last := items[len(items)-1]
	switch r.Intn(6) {
	case 0: // everything allowed
	case 1: // one member of each group
		for g := 0; g < groups; g++ {
			drop[2*g+r.Intn(2)] = true
		}
	case 2: // a single term missing
		drop[2*groups+r.Intn(singles)] = true
	case 3: // a whole group missing
		g := r.Intn(groups)
		drop[2*g], drop[2*g+1] = true, true
	case 4: // the last operand missing (whole group or single term)
		drop[last.a] = true
		if last.b >= 0 {
			drop[last.b] = true
		}
	default: // only the last operand allowed... plus the single terms
		for g := 0; g < groups; g++ {
			if 2*g != last.a {
				drop[2*g], drop[2*g+1] = true, true
			}
		}
	}
	for j, t := range terms {
		if !drop[j] {
			bc.Allowed = append(bc.Allowed, t)
		}
	}
	return bc
}
