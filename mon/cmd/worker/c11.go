package main

import (
	"encoding/json"
	"fmt"
	"strings"

	"verif/mon/internal/gen"
)

// C11 — '+' reaches exactly the later versions of the same family, in true version order.
//
// Two monitors: (1) invariants of the exported range table (exhaustive over its entries);
// (2) behaviour: Satisfies(X2,[X1+]) against the ordering of the version numbers parsed from the id
// text, an ordering the table does not state.

func init() { register("C11", runC11, replayC11) }

type C11Case struct {
	Kind string `json:"kind"` // table | plus | cross
	A    string `json:"a,omitempty"`
	B    string `json:"b,omitempty"`
}

// tableFindings walks LicenseRanges() and reports every well-formedness violation.
func judgeTable(c *Ctx) {
	u := c.U
	tc := C11Case{Kind: "table"}
	// every entry is a listed id and sits at exactly one position
	for id, ps := range u.Pos {
		c.Inc("table_entries")
		if !u.ActiveSet[id] && !u.DepSet[id] {
			c.Violation("notlisted:"+id, "C11.table", tc, "table entry %q (family %d step %d) is not a listed license id", id, ps[0].Family, ps[0].Step)
		}
		if len(ps) > 1 {
			c.Violation("dup:"+id, "C11.table", tc, "%q sits at %d table positions %v: only the first is ever used", id, len(ps), ps)
		}
	}
	// one version per step, strictly ascending steps (over the entries that are not -or-later forms)
	stemsInTable := map[string]int{} // stem -> family
	for fi, fam := range u.Ranges {
		c.Inc("families")
		prevVer := ""
		famName := "?"
		if len(fam) > 0 && len(fam[0]) > 0 {
			famName = fam[0][0]
		}
		famStem := ""
		for si, step := range fam {
			stepVer := ""
			for _, id := range step {
				if st0, _, _, ok0 := gen.Stem(id); ok0 {
					// one family = one license series: every entry carries the same text stem
					if famStem == "" {
						famStem = st0
					} else if st0 != famStem {
						c.Violation("mixed-family:"+famName+":"+id, "C11.table", tc, "family %s (stem %s) contains %q, an id of another license series (stem %s): '+' would reach across families", famName, famStem, id, st0)
					}
				}
				if strings.HasSuffix(id, "-or-later") {
					c.Inc("table_or_later_rows_exempt")
					continue
				}
				st, ver, _, ok := gen.Stem(id)
				if !ok {
					c.Violation("noversion:"+id, "C11.table", tc, "table entry %q has no version component: its place in an ascending family cannot be justified", id)
					continue
				}
				if _, seen := stemsInTable[st]; !seen {
					stemsInTable[st] = fi
				}
				if stepVer == "" {
					stepVer = ver
				} else if gen.CmpVersion(stepVer, ver) != 0 {
					c.Violation("step-mixed:"+id, "C11.table", tc, "family %s step %d mixes versions %s and %s (entry %q)", famName, si, stepVer, ver, id)
				}
			}
			if stepVer == "" {
				continue
			}
			if prevVer != "" && gen.CmpVersion(prevVer, stepVer) >= 0 {
				c.Violation(fmt.Sprintf("order:%s:%d", famName, si), "C11.table", tc, "family %s: step %d has version %s which is not later than the previous step's %s", famName, si, stepVer, prevVer)
			}
			prevVer = stepVer
			c.Inc("steps")
		}
	}
	// coverage: for every stem present, every listed id stem-version[-only] is in the table
	for _, id := range u.AllLicense {
		if strings.Contains(id, "+") || strings.HasSuffix(id, "-or-later") {
			continue
		}
		st, _, suffix, ok := gen.Stem(id)
		if !ok || (suffix != "" && suffix != "only") {
			continue
		}
		if _, covered := stemsInTable[st]; !covered {
			continue
		}
		c.Inc("coverage_checks")
		if len(u.Pos[id]) == 0 {
			c.Violation("missing:"+id, "C11.table", tc, "family %s is covered by the table but listed id %q is at no position: '+' can never reach it and %s vs %s-only style equivalences fail", st, id, id, id)
		}
	}
}

// verKey returns (stem, version) for ids of the simple form stem-version[-only|-or-later].
func verKey(id string) (stem, ver string, ok bool) {
	st, v, suffix, ok := gen.Stem(id)
	if !ok || (suffix != "" && suffix != "only" && suffix != "or-later") {
		return "", "", false
	}
	return st, v, true
}

func plusSpell(u *gen.Universe, id string, r *gen.Rand) string {
	if strings.HasSuffix(id, "-or-later") {
		return id
	}
	if u.SpellOK(id, gen.SpLater) && r != nil && r.Chance(1, 3) {
		return id + "-or-later"
	}
	return id + "+"
}

// judgePlus: a and b share a table family; X1+ must match X2 iff ver(X2) >= ver(X1) by id text.
func judgePlus(c *Ctx, a, b string, r *gen.Rand) {
	u := c.U
	// both ids are declared members of one family by the table, so the version number in their
	// text is what orders them (whatever suffix follows it: MPL-2.0-no-copyleft-exception is a 2.0)
	_, va, _, okA := gen.Stem(a)
	_, vb, _, okB := gen.Stem(b)
	if !okA || !okB {
		c.Inc("family_pairs_without_simple_version")
		return
	}
	want := gen.CmpVersion(vb, va) >= 0
	ap := plusSpell(u, a, r)
	// the key names the unordered pair: '+' reach between two ids is one fact, whichever side carries the '+'
	key := "plus:" + a + "~" + b
	if b < a {
		key = "plus:" + b + "~" + a
	}
	cs := C11Case{Kind: "plus", A: a, B: b}
	bPlain := b
	if strings.HasSuffix(b, "-or-later") {
		return // b itself means "or later": both sides plus, judged by C02
	}
	r1 := c.Sat(bPlain, []string{ap})
	r2 := c.Sat(ap, []string{bPlain})
	c.CountIf(want, "plus_expected_true")
	c.CountIf(!want, "plus_expected_false")
	c.Distinct(gen.HashStr("plus", a, b))
	if !r1.Clean() || r1.OK != want {
		c.Violation(key, "C11.plus", cs, "Satisfies(%q,[%q])=%s; version %s %s %s so '+' should give %v", bPlain, ap, r1, vb, map[bool]string{true: ">=", false: "<"}[want], va, want)
		return
	}
	if !r2.Clean() || r2.OK != want {
		c.Violation(key, "C11.plus", cs, "Satisfies(%q,[%q])=%s; version %s %s %s so '+' should give %v", ap, bPlain, r2, vb, map[bool]string{true: ">=", false: "<"}[want], va, want)
		return
	}
	// the same reach in richer contexts: next to the plain entry of the same id (either order), with a common exception on
	// both sides, inside compound expressions, and with '+' on both sides (same family => always a match)
	exc := "Classpath-exception-2.0"
	if len(u.Exceptions) > 0 {
		exc = u.Exceptions[(len(a)+len(b))%len(u.Exceptions)]
	}
	type ctx struct {
		expr    string
		allowed []string
		want    bool
	}
	ctxs := []ctx{
		{bPlain, []string{a, ap}, want || a == b},
		{bPlain, []string{ap, a}, want || a == b},
		{bPlain + " WITH " + exc, []string{ap + " WITH " + exc}, want},
		{bPlain + " WITH " + exc, []string{ap}, false},
		{"MIT AND " + bPlain, []string{"MIT", ap}, want},
		{"(ISC OR " + bPlain + ") AND MIT", []string{ap, "MIT"}, want},
		{bPlain, []string{"MIT", "ISC", ap, "Zlib"}, want},
	}
	if (len(a)+len(b))%5 == 0 || gen.CmpVersion(va, vb) == 0 {
		// the '+' entry as the last of a long list of unrelated entries (implementations index long lists)
		long := make([]string, 0, 302)
		for i := 0; len(long) < 300; i++ {
			if id := u.NotInTable[(i*13+len(a))%len(u.NotInTable)]; !strings.Contains(id, "+") {
				long = append(long, id)
			}
		}
		ctxs = append(ctxs, ctx{bPlain, append(append([]string{}, long...), ap), want}, ctx{ap, append(append([]string{}, long...), bPlain), want})
		c.Inc("plus_long_list_contexts")
	}
	if u.SpellOK(b, gen.SpPlus) {
		ctxs = append(ctxs, ctx{b + "+", []string{ap}, true}, ctx{ap, []string{b + "+"}, true})
	}
	if a != b && strings.HasSuffix(a, "-or-later") == false && u.SpellOK(a, gen.SpPlus) {
		// the plain entry of the '+' id must not widen the reach: X1 alone matches only its own step
		sameStep := gen.CmpVersion(va, vb) == 0
		ctxs = append(ctxs, ctx{bPlain, []string{a}, sameStep})
	}
	for _, x := range ctxs {
		got := c.Sat(x.expr, x.allowed)
		c.Inc("plus_context_checks")
		if !got.Clean() || got.OK != x.want {
			c.Violation(key, "C11.plus", cs, "Satisfies(%q,%q)=%s; with version %s vs %s the table's '+' reach requires %v", x.expr, x.allowed, got, vb, va, x.want)
			return
		}
	}
}

// judgeCross: ids of different families / outside the table never match through '+'.
func judgeCross(c *Ctx, a, b string, r *gen.Rand) {
	u := c.U
	if a == b || gen.StripLater(a) == gen.StripLater(b) {
		return
	}
	// same family and same license series? then judgePlus handles it. Ids of different series (text stems)
	// are different families whatever the table says, and must not match.
	sa, _, _, okA := gen.Stem(a)
	sb, _, _, okB := gen.Stem(b)
	sameStem := !okA || !okB || sa == sb
	for _, pa := range u.TablePos(a) {
		for _, pb := range u.TablePos(b) {
			if pa.Family == pb.Family && sameStem {
				return
			}
		}
	}
	// an id listed at several positions makes "different family" ambiguous (reported as dup:)
	if len(u.TablePos(a)) > 1 || len(u.TablePos(b)) > 1 {
		c.Inc("cross_pairs_skipped_ambiguous")
		return
	}
	if !u.SpellOK(a, gen.SpPlus) && !strings.HasSuffix(a, "-or-later") {
		return
	}
	ap := plusSpell(u, a, r)
	bp := b
	if u.SpellOK(b, gen.SpPlus) && r != nil && r.Chance(1, 2) {
		bp = plusSpell(u, b, r)
	}
	r1 := c.Sat(bp, []string{ap})
	r2 := c.Sat(ap, []string{bp})
	c.Inc("cross_family_checks")
	c.Distinct(gen.HashStr("cross", ap, bp))
	if !r1.Clean() || !r2.Clean() || r1.OK || r2.OK {
		c.Violation("crossfamily:"+a+"~"+b, "C11.cross", C11Case{Kind: "cross", A: a, B: b},
			"%q and %q are not in one table family yet Satisfies(%q,[%q])=%s, Satisfies(%q,[%q])=%s", a, b, bp, ap, r1, ap, bp, r2)
	}
}

func replayC11(c *Ctx, rule string, raw json.RawMessage) {
	var cs C11Case
	if err := json.Unmarshal(raw, &cs); err != nil {
		fmt.Println("bad case:", err)
		return
	}
	switch cs.Kind {
	case "alias":
		before := tablesFingerprint()
		clobberTables()
		if tablesFingerprint() != before {
			c.Violation("table-aliased", "C11.alias", cs, "replayed: fresh tables differ after a caller edited the returned slices")
		}
	case "table":
		judgeTable(c)
	case "plus":
		judgePlus(c, cs.A, cs.B, nil)
	case "cross":
		judgeCross(c, cs.A, cs.B, nil)
	}
}

func runC11(c *Ctx, phase string) {
	u := c.U
	nOthers := c.Pick(40, 0)
	c.Meta("(1) invariants over every entry of LicenseRanges(): listed, unique position, one version per step, strictly ascending versions parsed from the id text (stem-digits(.digits)*[a-z]?), every listed stem-version[-only] of a covered stem present; "+
		"(2) for every ordered pair of ids sharing a table family: Satisfies(X2,[X1+]) and Satisfies(X1+,[X2]) (also spelled X1-or-later) must equal ver(X2)>=ver(X1); "+
		"(3) pairs of listed ids not sharing a family (quick: all pairs inside a text stem plus seeded others; thorough: all pairs) never match through '+'. distinct = (kind, id pair); every pair is non-trivial",
		true, fmt.Sprintf("families=%d; table entries=%d; cross partners per id=%s", len(u.Ranges), len(u.Pos), map[bool]string{false: "40 + stem", true: "all"}[c.Thorough()]),
		"-or-later rows of the table are exempt from the version-per-step and coverage rules: the library strips -or-later before it consults the table, so they are behaviourally dead",
		"version order = numeric component-wise order of the number in the id text, trailing letter as tie-break")
	c.Floor("families", int64(len(u.Ranges)))
	multi := 0 // families with at least two members: a one-version family has no '+' pair to execute
	for fi := range u.Ranges {
		if len(u.FamilyMembers(fi)) >= 2 {
			multi++
		}
	}
	c.Floor("families_with_plus_pairs", int64(multi))
	c.Floor("plus_expected_true", 500)
	c.Floor("plus_expected_false", 300)
	c.Floor("plus_context_checks", 3000)
	c.Floor("plus_long_list_contexts", 100)
	c.Floor("cross_family_checks", 5000)
	c.Floor("table_entries", int64(len(u.Pos)))

	if c.Shard == 0 {
		judgeTable(c)
		c.Sample(map[string]any{"table_family_0": u.Ranges[0], "checks": "listed, unique, one version per step, ascending, coverage"})
	}
	idx := 0
	for fi := range u.Ranges {
		mem := u.FamilyMembers(fi)
		if c.Shard == 0 && len(mem) >= 2 {
			c.Inc("families_with_plus_pairs")
		}
		for _, a := range mem {
			for _, b := range mem {
				idx++
				if !c.Mine(idx) {
					continue
				}
				if len(u.TablePos(a)) > 1 || len(u.TablePos(b)) > 1 {
					// ids at several positions: judge against each family they claim, the version order is still what '+' must follow
					c.Inc("plus_pairs_with_duplicated_id")
				}
				r := gen.NewRand(c.Seed, 0xC11, uint64(idx))
				if u.SpellOK(a, gen.SpPlus) || strings.HasSuffix(a, "-or-later") {
					judgePlus(c, a, b, r)
				}
				if c.WantSample() && a != b {
					c.Sample(map[string]any{"expression": b, "allowed": a + "+", "expected": "true iff version(" + b + ") >= version(" + a + ")"})
				}
			}
		}
	}
	// cross-family
	ids := make([]string, 0, len(u.AllLicense))
	for _, id := range u.AllLicense {
		if !strings.Contains(id, "+") {
			ids = append(ids, id)
		}
	}
	byStem := map[string][]string{}
	for _, id := range ids {
		st, _, _, ok := gen.Stem(id)
		if ok {
			byStem[st] = append(byStem[st], id)
		}
	}
	for i, a := range ids {
		if !c.Mine(i) {
			continue
		}
		r := gen.NewRand(c.Seed, 0xC11C, uint64(i))
		if c.Thorough() || true { // the complete id x id product is cheap enough for the quick tier
			for _, b := range ids {
				judgeCross(c, a, b, r)
			}
			continue
		}
		st, _, _, ok := gen.Stem(a)
		if ok {
			for _, b := range byStem[st] {
				judgeCross(c, a, b, r)
			}
		}
		for j := 0; j < nOthers; j++ {
			judgeCross(c, a, ids[r.Intn(len(ids))], r)
		}
	}
	if c.Shard == 0 {
		// last: the family table a caller was handed and then edited (sorted, reversed, filtered in place) must not be the one
		// the '+' comparison consults – otherwise "true version order" holds only until the first such caller
		before := tablesFingerprint()
		clobberTables()
		c.Inc("table_refetched_after_client_edit")
		if tablesFingerprint() != before {
			c.Violation("table-aliased", "C11.alias", map[string]string{"kind": "alias"}, "after a caller overwrote what LicenseRanges() (and the id list functions) returned, fresh calls return a different table: the version order '+' relies on is whatever the last caller left behind")
		}
	}
}
