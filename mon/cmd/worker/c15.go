package main

import (
	"encoding/json"
	"fmt"
	"regexp"
	"strconv"
	"strings"

	"verif/mon/internal/ev"
	"verif/mon/internal/gen"
)

// C15 — error messages locate the offending text in the caller's own string.
//
// Oracle: parse the offset-bearing messages and look the cited lexeme up in the string the caller
// passed.

func init() { register("C15", runC15, replayC15) }

type C15Case struct {
	Fn       string  `json:"fn"` // ExtractLicenses | Satisfies-expr | Satisfies-allowed | ValidateLicenses
	Bad      ev.QS   `json:"bad_string"`
	Others   []ev.QS `json:"other_args,omitempty"`
	Pos      int     `json:"pos,omitempty"`
	Rewrites int     `json:"synthesised_or_later_before_bad"`
	BadAt    int     `json:"bad_token_offset"`
	// MissingAt-1 is the offset at which scanning must fail (0 = unknown to the generator)
	MissingAt int `json:"scan_stops_at_plus1,omitempty"`
	AltAt     int `json:"alt_token_start_plus1,omitempty"`
}

// msgOffset returns the offset a message cites: the number that follows the first "offset" / "position" / "index" keyword
// (messages may carry further text, e.g. a hint in parentheses, behind it).
var reCitedOffset = regexp.MustCompile(`(?i)\b(?:offset|position|index|pos|byte)\s*:?\s*(\d+)`)

func msgOffset(msg string) int {
	var m []string
	if u := reUnknown.FindStringSubmatch(msg); u != nil {
		m = []string{"", u[2]} // the number behind the cited lexeme, not one inside it
	} else if m = reCitedOffset.FindStringSubmatch(msg); m == nil {
		return -1
	}
	n, err := strconv.Atoi(m[1])
	if err != nil {
		return -1
	}
	return n
}

// The message formats of the pinned tree are `unknown license '<lex>' at offset <n>`, `expected id at offset <n>` and
// `unexpected '<c>' at offset <n>`. The patterns tolerate rewording (other quotes, "position"/"index", extra text around),
// so that a change of wording alone is not reported: what is judged is the cited offset and lexeme.
var (
	reUnknown    = regexp.MustCompile("(?is)^.*?(?:unknown|unrecognized|unrecognised|invalid)\\s+(?:license|licence|identifier|id)\\b[^'\"`]*['\"`](.*)['\"`].*?(?:offset|position|index|pos)\\s*:?\\s*(\\d+).*$")
	reExpectedID = regexp.MustCompile("(?is)^.*?(?:expected|missing)\\s+(?:an?\\s+)?(?:id|identifier)\\b.*?(?:offset|position|index|pos)\\s*:?\\s*(\\d+).*$")
	reUnexpected = regexp.MustCompile("(?is)^.*?unexpected\\s+(?:character\\s+)?['\"`](.*)['\"`].*?(?:offset|position|index|pos)\\s*:?\\s*(\\d+).*$")
)

func isIDByte(b byte) bool {
	return b >= 'a' && b <= 'z' || b >= 'A' && b <= 'Z' || b >= '0' && b <= '9' || b == '-' || b == '.'
}

// checkMessage returns "" when the message is consistent with arg, else a description.
func checkMessage(msg, arg string) (kind, problem string) {
	if m := reUnknown.FindStringSubmatch(msg); m != nil {
		n, _ := strconv.Atoi(m[2])
		lex := m[1]
		if n < 0 || n+len(lex) > len(arg) {
			return "unknown", fmt.Sprintf("offset %d + lexeme length %d lies outside the %d-byte argument", n, len(lex), len(arg))
		}
		if arg[n:n+len(lex)] != lex {
			return "unknown", fmt.Sprintf("argument has %q at offset %d, not the cited %q", arg[n:n+len(lex)], n, lex)
		}
		// the cited lexeme must be a whole id, not the middle of one
		if n > 0 && isIDByte(arg[n-1]) && !strings.HasSuffix(arg[:n], "LicenseRef-") && !strings.HasSuffix(arg[:n], "DocumentRef-") {
			// an operator keyword may abut (e.g. "ANDFOO" scans as AND + FOO): accept if the preceding text ends with one
			if !(strings.HasSuffix(arg[:n], "AND") || strings.HasSuffix(arg[:n], "OR") || strings.HasSuffix(arg[:n], "WITH")) {
				return "unknown", fmt.Sprintf("offset %d points into the middle of an identifier", n)
			}
		}
		return "unknown", ""
	}
	if m := reExpectedID.FindStringSubmatch(msg); m != nil {
		n, _ := strconv.Atoi(m[1])
		if n < 0 || n > len(arg) {
			return "expected_id", fmt.Sprintf("offset %d lies outside the %d-byte argument", n, len(arg))
		}
		atPrefix := strings.HasPrefix(arg[n:], "LicenseRef-") || strings.HasPrefix(arg[n:], "DocumentRef-")
		if n < len(arg) && isIDByte(arg[n]) && !atPrefix {
			return "expected_id", fmt.Sprintf("argument has id character %q at offset %d, so no id is missing there", arg[n], n)
		}
		return "expected_id", ""
	}
	if m := reUnexpected.FindStringSubmatch(msg); m != nil {
		n, _ := strconv.Atoi(m[2])
		if n < 0 || n >= len(arg) {
			return "unexpected", fmt.Sprintf("offset %d lies outside the %d-byte argument", n, len(arg))
		}
		if string(rune(arg[n])) != m[1] {
			return "unexpected", fmt.Sprintf("argument has byte %q at offset %d, message cites %q", arg[n], n, m[1])
		}
		return "unexpected", ""
	}
	// any other wording that still cites an offset: with a quoted lexeme it is judged like "unknown", without one like "expected id"
	if m := reCitedOffset.FindStringSubmatchIndex(msg); m != nil {
		n, _ := strconv.Atoi(msg[m[2]:m[3]])
		if q := reQuoted.FindStringSubmatch(msg[:m[0]]); q != nil {
			lex := q[1]
			if n < 0 || n+len(lex) > len(arg) {
				return "unknown", fmt.Sprintf("offset %d + lexeme length %d lies outside the %d-byte argument", n, len(lex), len(arg))
			}
			if arg[n:n+len(lex)] != lex {
				return "unknown", fmt.Sprintf("argument has %q at offset %d, not the cited %q", arg[n:n+len(lex)], n, lex)
			}
			return "unknown", ""
		}
		if n < 0 || n > len(arg) {
			return "expected_id", fmt.Sprintf("offset %d lies outside the %d-byte argument", n, len(arg))
		}
		return "expected_id", ""
	}
	return "", ""
}

var reQuoted = regexp.MustCompile("['\"`]([^'\"`]+)['\"`]")

func judgeC15(c *Ctx, cs C15Case) {
	bad := string(cs.Bad)
	others := ev.Strs(cs.Others)
	var msg string
	var isErr bool
	switch cs.Fn {
	case "ExtractLicenses":
		r := c.Ext(bad)
		msg, isErr = r.Err, r.IsErr
		if r.Panic != "" {
			c.Violation("panic:"+trunc(bad, 60), "C15.offset", cs, "ExtractLicenses(%q) panicked: %s", bad, r.Panic)
			return
		}
	case "Satisfies-expr":
		r := c.Sat(bad, others)
		msg, isErr = r.Err, r.IsErr
		if r.Panic != "" {
			c.Violation("panic:"+trunc(bad, 60), "C15.offset", cs, "Satisfies(%q,..) panicked: %s", bad, r.Panic)
			return
		}
	case "Satisfies-allowed":
		list := append([]string{}, others[1:]...)
		pos := cs.Pos
		if pos > len(list) {
			pos = len(list)
		}
		list = append(list[:pos], append([]string{bad}, list[pos:]...)...)
		r := c.Sat(others[0], list)
		msg, isErr = r.Err, r.IsErr
		if r.Panic != "" {
			c.Violation("panic:"+trunc(bad, 60), "C15.offset", cs, "Satisfies(..,%q) panicked: %s", list, r.Panic)
			return
		}
	}
	c.Inc("calls")
	if !isErr {
		c.Inc("calls_without_error")
		return
	}
	kind, problem := checkMessage(msg, bad)
	if kind == "" {
		c.Inc("errors_without_offset")
		return
	}
	c.Inc("offset_messages")
	c.Inc("message_" + kind)
	rw := cs.Rewrites
	if rw > 3 {
		rw = 3
	}
	c.Inc(fmt.Sprintf("offset_messages_after_%d_rewrites", rw))
	if problem == "" && cs.MissingAt > 0 {
		// generator knowledge: where the scanner must stop. For a missing id the message may cite the
		// place where the id should start or the start of the offending token.
		n := msgOffset(msg)
		switch kind {
		case "unknown":
			if n != cs.BadAt {
				problem = fmt.Sprintf("the unknown id starts at offset %d of the argument, the message cites %d", cs.BadAt, n)
			}
		case "expected_id":
			if n != cs.MissingAt-1 && n != cs.BadAt && (cs.AltAt == 0 || n != cs.AltAt-1) {
				problem = fmt.Sprintf("the id is missing at offset %d (offending token starts at %d), the message cites %d", cs.MissingAt-1, cs.BadAt, n)
			}
		}
	}
	if problem != "" {
		c.Violation(fmt.Sprintf("offset:%s:rewrites=%d", kind, rw), "C15.offset", cs, "%s on %q returned %q: %s", cs.Fn, bad, msg, problem)
	}
}

func replayC15(c *Ctx, rule string, raw json.RawMessage) {
	var cs C15Case
	if err := json.Unmarshal(raw, &cs); err != nil {
		fmt.Println("bad case:", err)
		return
	}
	judgeC15(c, cs)
}

func runC15(c *Ctx, phase string) {
	u := c.U
	n := c.Pick(300000, 6000000)
	c.Meta("invalid strings prefix + bad + suffix: prefix = generated valid expression (containing listed and synthesised -or-later forms - zero to several per prefix -, '+', -only, multiple spaces, parentheses, refs, WITH) "+
		"followed by an operator or '(' ; bad in {unknown id, 'LicenseRef-', 'DocumentRef-', 'LicenseRef-!x', a non-id byte, a multi-byte rune}; arbitrary suffix; passed to ExtractLicenses, to Satisfies as expression and "+
		"as one allowed entry at a random position (exactly one argument invalid per call). Every offset-bearing message is checked against the caller's string. distinct = (function, invalid string); non-trivial = an offset-bearing error was returned",
		false, fmt.Sprintf("calls=%d", n), "message formats as documented in the property: unknown license '<lex>' at offset <n>; expected id at offset <n>; unexpected '<c>' at offset <n>")
	c.Floor("offset_messages", int64(n*4/10))
	for i := 0; i <= 3; i++ {
		c.Floor(fmt.Sprintf("offset_messages_after_%d_rewrites", i), 200)
	}
	c.Floor("message_unknown", 1000)
	c.Floor("long_prefixes", 300)
	c.Floor("prefixes_with_or_later_plus", 500)
	c.Floor("message_expected_id", 500)

	bads := []string{"FOO", "Unknown-2.0", "LicenseRef-", "DocumentRef-", "LicenseRef-!x", "DocumentRef-:LicenseRef-a", "!", "#", "\t", "é", "日", "\x00", "_", "GPL-9.9-or-later", "mit-or-latr", "LicenseRef- x",
		// hostile unknown ids: suffixes / prefixes in the wrong letter case (the suffix and prefix rules are case-sensitive), so the
		// scanner's normalisation code runs on them before they are reported
		"FOO-2.0-OR-LATER", "Foo-1-Only", "BAR-Or-Later", "MIT-ONLY", "Apache-2.0-OR-LATER", "apache-2.0-Or-Later", "licenseref-x", "LICENSEREF-x",
		"documentref-a", "Gpl-9.9", "GPL-2.0-ONLY-only-x", "x-only", "y-or-later", "-or-later", "-only", "Z-only-or-later",
		// a document reference whose license reference lacks its id; unknown ids with odd endings or glued to the next character
		"DocumentRef-x:LicenseRef-", "DocumentRef-My.Doc-1:LicenseRef-!y", "DocumentRef-x:LicenseRef- z",
		"foo.", "foo-", "a..b", "foo+", "foo(", "foo:", "Foo-1.0+", strings.Repeat("LongUnknownId", 6), strings.Repeat("x", 300)}
	for i := 0; i < n; i++ {
		if !c.Mine(i) {
			continue
		}
		r := gen.NewRand(c.Seed, 0xC15, uint64(i))
		// prefix: a valid expression biased towards synthesised -or-later forms
		tc := genRandomTree(c, "C15", i, 64)
		for q := range tc.Terms {
			if !tc.Terms[q].Ref && r.Chance(1, 2) {
				id := r.Pick(u.SynthBase)
				tc.Terms[q] = gen.Term{ID: id, Spell: gen.SpLater}
				if r.Chance(1, 4) {
					tc.Terms[q].Spell = gen.SpLaterPlus // X-or-later+ : the rewrite also swallows the explicit '+'
				}
				if r.Chance(1, 5) {
					tc.Terms[q].Exc = r.Pick(u.Exceptions)
				}
			}
		}
		leaf := make([]string, len(tc.Terms))
		for q, t := range tc.Terms {
			leaf[q] = t.Text()
			if !t.Ref && r.Chance(1, 6) {
				// spellings whose validity is the library's (and C05's) business: a deprecated id or an id with a listed suffix carrying
				// a (second) suffix, an exception id with a suffix after WITH. IF the tree under check accepts one, it is a valid
				// prefix term like any other and everything behind it must still be located correctly
				var cand string
				switch r.Intn(3) {
				case 0:
					cand = r.Pick(u.DepPlain) + []string{"-or-later", "-only", "-or-later+"}[r.Intn(3)]
				case 1:
					cand = r.Pick(append(append([]string{}, u.ListedOnly...), u.ListedLater...)) + []string{"-or-later", "-only", "-or-later+"}[r.Intn(3)]
				default:
					cand = "MIT WITH " + r.Pick(u.Exceptions) + []string{"-or-later", "-only"}[r.Intn(2)]
				}
				if !strings.Contains(strings.TrimSuffix(cand, "+"), "+") && c.Valid(cand) {
					leaf[q] = cand
					c.Inc("prefix_terms_in_library_accepted_odd_spellings")
				}
			}
		}
		prefix := tc.Tree.Render(leaf, gen.RenderOpt{Paren: r.Intn(3), Spaces: r.Chance(1, 2), R: r})
		rewrites, laterPlus := 0, 0
		for _, li := range tc.Tree.Leaves(nil) {
			if !tc.Terms[li].Ref && (tc.Terms[li].Spell == gen.SpLater || tc.Terms[li].Spell == gen.SpLaterPlus) {
				rewrites++
				if tc.Terms[li].Spell == gen.SpLaterPlus {
					laterPlus++
				}
			}
		}
		if r.Chance(1, 8) {
			prefix, rewrites, laterPlus = "", 0, 0
		}
		if prefix != "" && i%400 == 0 {
			// a long prefix: offsets beyond 4 KiB / 64 KiB (buffers that get compacted, narrow integers)
			target := []int{5000, 9000, 20000, 70000}[r.Intn(4)]
			unit := "(" + prefix + ")"
			reps := target/(len(unit)+5) + 1
			prefix = strings.Repeat(unit+" AND ", reps-1) + unit
			rewrites *= reps
			laterPlus *= reps
			c.Inc("long_prefixes")
			c.Max("longest_prefix_bytes", int64(len(prefix)))
		}
		c.CountIf(laterPlus > 0, "prefixes_with_or_later_plus")
		join := ""
		if prefix != "" {
			join = []string{" AND ", " OR ", " AND (", " OR ( ", "  AND  "}[r.Intn(5)]
		}
		bad := r.Pick(bads)
		candidate := false
		if r.Chance(1, 5) {
			// candidates: listed ids (licenses and exceptions) carrying a second / an inapplicable suffix. Whether they are valid is
			// C05's business; IF the library rejects one with an offset-bearing message, the offset must be right (the scanner has
			// rewritten its buffer for the -or-later forms by the time it decides)
			base := r.Pick(u.AllLicense)
			if r.Chance(1, 3) {
				base = r.Pick(u.Exceptions)
			}
			if strings.Contains(base, "+") {
				base = "MIT" // a '+' inside the candidate would split it into two tokens
			}
			if r.Chance(1, 4) {
				base = gen.MixCase(r, base)
			}
			bad = base + []string{"-only-or-later", "-or-later-or-later", "-or-later-only", "-only-only", "-or-later", "-only", "-or-later+", "-only-or-later+"}[r.Intn(8)]
			inCtx := bad
			if r.Chance(1, 3) && prefix != "" {
				join += "MIT WITH "
				inCtx = "MIT WITH " + bad
			}
			if c.Valid(inCtx) {
				c.Inc("candidates_accepted_by_the_library") // not an invalid token here: nothing to check
				continue
			}
			candidate = true
			c.Inc("candidate_bad_tokens")
		}
		suffix := []string{"", " AND MIT", " OR (ISC)", ")", " +", " WITH x", " \xff", " AND Apache-2.0-or-later"}[r.Intn(8)]
		if candidate {
			// nothing after the candidate may be a lexical error of its own (an exception id is a well-formed token to the scanner,
			// which reports ITS first problem before the parser runs)
			suffix = []string{"", " AND MIT", " OR (ISC)", ")"}[r.Intn(4)]
		}
		s := prefix + join + bad + suffix
		cs := C15Case{Bad: ev.QS(s), Rewrites: rewrites, BadAt: len(prefix) + len(join)}
		cs.MissingAt = cs.BadAt + 1
		switch {
		case strings.HasPrefix(bad, "LicenseRef-"):
			cs.MissingAt += len("LicenseRef-")
		case strings.HasPrefix(bad, "DocumentRef-") && len(bad) > 12 && isIDByte(bad[12]) && strings.Contains(bad, ":LicenseRef-"):
			cs.MissingAt += strings.Index(bad, ":LicenseRef-") + len(":LicenseRef-")
			cs.AltAt = cs.BadAt + strings.Index(bad, ":LicenseRef-") + 1 + 1 // start of the LicenseRef- token (+1: 0 means unset)
		case strings.HasPrefix(bad, "DocumentRef-"):
			cs.MissingAt += len("DocumentRef-")
		}
		switch r.Intn(3) {
		case 0:
			cs.Fn = "ExtractLicenses"
		case 1:
			cs.Fn = "Satisfies-expr"
			cs.Others = []ev.QS{"MIT", "Apache-2.0-or-later"}
		default:
			cs.Fn = "Satisfies-allowed"
			cs.Others = []ev.QS{"MIT OR Apache-2.0-or-later", "ISC", "GPL-2.0-or-later", "Zlib-or-later"}
			cs.Pos = r.Intn(4)
		}
		judgeC15(c, cs)
		c.Distinct(gen.HashStr(cs.Fn, s))
		if c.WantSample() && rewrites >= 2 {
			e := c.Ext(s)
			c.Sample(map[string]any{"invalid_string": ev.QS(s), "bad_token_at": cs.BadAt, "error": e.Err})
		}
	}
}
