package main

import (
	"encoding/json"
	"fmt"
	"os"
	"path/filepath"
	"runtime"
	"sort"
	"strconv"
	"strings"
	"sync"
	"sync/atomic"
	"syscall"

	"github.com/github/go-spdx/v2/spdxexp"
	"github.com/github/go-spdx/v2/spdxexp/spdxlicenses"

	"verif/mon/internal/ev"
	"verif/mon/internal/gen"
)

// C13 — calls are pure: no argument mutation, no history, safe under concurrency.
//
// A fixed workload W of call descriptors over shared argument slices. Phases (separate children):
//   ref    one goroutine, canonical order                       -> reference results R0
//   hist   fresh processes, W twice in seeded permutations      -> every result == R0 (history independence)
//   conc   -race build, G goroutines x GOMAXPROCS on the same slices -> every result == R0, race log, overlap measured
//   strace sequential W under strace                            -> no write to fd 1/2, nothing opened/connected
// Argument memory (whole capacity of every shared slice) is compared before/after.

func init() { register("C13", runC13, replayC13) }

type c13Call struct {
	Fn   int // 1 Satisfies, 2 Extract, 3 Validate
	Expr int // index into exprs (Satisfies, Extract)
	List int // index into lists (Satisfies, Validate)
}

type c13Workload struct {
	exprs []string
	lists [][]string // len < cap; the spare capacity holds sentinels
	snap  [][]string // copy of lists[i][:cap]
	calls []c13Call
}

const sentinel = "SENTINEL-DO-NOT-TOUCH-"

func buildC13Workload(c *Ctx) *c13Workload {
	u := c.U
	w := &c13Workload{}
	r := gen.NewRand(c.Seed, 0xC13)
	add := func(s string) { w.exprs = append(w.exprs, s) }
	// fixed edge cases
	for _, s := range []string{"MIT", "mit", "(MIT)", "MIT AND ISC", "MIT OR ISC", "GPL-2.0+", "GPL-2.0-or-later WITH Bison-exception-2.2", "Apache-2.0-or-later", "(Apache-2.0-or-later)",
		"LicenseRef-a", "DocumentRef-d:LicenseRef-a", "MIT OR LicenseRef-x", "", " ", "(", "MIT WITH", "FOO", "MIT AND", "Apache-2.0-or-later AND FOO", "\xff", "MIT AND (ISC OR (Zlib AND (0BSD OR BSD-3-Clause)))",
		"((MIT AND ISC) AND Apache-2.0) AND (BSD-3-Clause OR Zlib)", "(LicenseRef-a OR LicenseRef-b) AND MIT OR ISC"} {
		add(s)
	}
	// spelling families: the same id in every spelling and letter case, as separate expressions. A cache or
	// memo keyed by part of the spelling (case-folded text, id without '+', ...) makes one of them poison another,
	// and the permuted histories put the poisoner on either side.
	famIDs := []string{"MIT", "Apache-2.0", "GPL-2.0-only", "GPL-2.0-or-later"}
	famIDs = append(famIDs, u.DepFold[r.Intn(len(u.DepFold))], u.DepFold[r.Intn(len(u.DepFold))], u.DepPlain[r.Intn(len(u.DepPlain))],
		u.InTable[r.Intn(len(u.InTable))], u.SynthBase[r.Intn(len(u.SynthBase))], u.ListedLater[r.Intn(len(u.ListedLater))])
	exc := u.Exceptions[r.Intn(len(u.Exceptions))]
	for _, id := range famIDs {
		for _, cs := range []func(string) string{func(x string) string { return x }, strings.ToLower, strings.ToUpper} {
			base := cs(id)
			add(base)
			add(base + "+")
			add(base + " WITH " + cs(exc))
			add(base + "+ WITH " + exc)
			if u.SpellOK(id, gen.SpOnly) {
				add(base + "-only")
				add(base + "-or-later")
			}
			add("(" + base + ") AND LicenseRef-" + cs("Fam"))
		}
	}
	for i := 0; len(w.exprs) < 150+len(famIDs)*18; i++ {
		tc := genRandomTree(c, "C13", i, 64)
		switch r.Intn(5) {
		case 0: // invalid mutation
			kinds, lex := u.ASTTokens(tc.Tree, tc.Terms, r)
			p := r.Intn(len(kinds))
			k := r.Intn(gen.NumKinds)
			kinds = append(append(append([]int{}, kinds[:p]...), k), kinds[p:]...)
			lex = append(append(append([]string{}, lex[:p]...), u.Lexeme(k, r)), lex[p:]...)
			add(gen.RenderTokens(kinds, lex, false, r))
		case 1:
			add(r.Pick(u.AllLicense))
		default:
			add(string(tc.Text))
		}
	}
	// shared lists with spare capacity
	mk := func(items []string) {
		l := make([]string, len(items), len(items)+4)
		copy(l, items)
		full := l[:cap(l)]
		for i := len(items); i < cap(l); i++ {
			full[i] = sentinel + strconv.Itoa(i)
		}
		w.lists = append(w.lists, l)
	}
	mk(nil)
	mk([]string{"MIT"})
	mk([]string{"ISC", "MIT", "Apache-2.0", "MIT"})
	mk([]string{"zlib", "MIT", "Apache-1.0+", "GPL-2.0-or-later", "LicenseRef-a", "DocumentRef-d:LicenseRef-a", "0BSD", "BSD-3-Clause"})
	mk([]string{"MIT", "MIT AND ISC"})
	mk([]string{"MIT", "NOT-A-LICENSE", "ISC"})
	mk([]string{"(MIT)", " ISC ", "apache-2.0"})
	for len(w.lists) < 14 {
		n := 1 + r.Intn(12)
		if len(w.lists) == 13 {
			n = 60
		}
		items := make([]string, n)
		for i := range items {
			items[i] = u.RandomTerm(r).Text()
		}
		// deliberately unsorted with duplicates so that an in-place sort / dedup would show
		if n > 2 {
			items[n-1] = items[0]
			sort.Sort(sort.Reverse(sort.StringSlice(items[:n-1])))
		}
		mk(items)
	}
	// one large list (index 14): 1500 entries, every fourth one a different invalid string. Only two calls use it
	// (ValidateLicenses: the order of the reported entries must never vary; Satisfies("MIT", big): error text stable).
	big := make([]string, 1500)
	for i := range big {
		switch {
		case i%4 == 1:
			big[i] = "invalid-" + strconv.Itoa((i*7919)%1000)
		case i%50 == 7:
			big[i] = "MIT AND"
		default:
			big[i] = u.Active[(i*31)%len(u.Active)]
		}
	}
	mk(big)
	for _, l := range w.lists {
		w.snap = append(w.snap, append([]string{}, l[:cap(l)]...))
	}
	// calls
	for i := range w.exprs {
		w.calls = append(w.calls, c13Call{Fn: 2, Expr: i})
		w.calls = append(w.calls, c13Call{Fn: 1, Expr: i, List: 1 + r.Intn(13)})
		if i%3 == 0 {
			w.calls = append(w.calls, c13Call{Fn: 1, Expr: i, List: r.Intn(14)})
		}
	}
	for j := range w.lists {
		w.calls = append(w.calls, c13Call{Fn: 3, List: j})
	}
	w.calls = append(w.calls, c13Call{Fn: 1, Expr: 0, List: 14}, c13Call{Fn: 3, List: 14})
	return w
}

// exec performs one call of the workload and returns a canonical result string (result, exact
// error text, exact output order).
func (w *c13Workload) exec(cl c13Call) (res string) {
	defer func() {
		if p := recover(); p != nil {
			res = "PANIC " + panicText(p)
		}
	}()
	switch cl.Fn {
	case 1:
		ok, err := spdxexp.Satisfies(w.exprs[cl.Expr], w.lists[cl.List])
		if err != nil {
			return fmt.Sprintf("S %v ERR %s", ok, err.Error())
		}
		return fmt.Sprintf("S %v", ok)
	case 2:
		l, err := spdxexp.ExtractLicenses(w.exprs[cl.Expr])
		if err != nil {
			return fmt.Sprintf("E %q nil=%v ERR %s", l, l == nil, err.Error())
		}
		return fmt.Sprintf("E %q", l)
	default:
		ok, inv := spdxexp.ValidateLicenses(w.lists[cl.List])
		return fmt.Sprintf("V %v %q", ok, inv)
	}
}

func (w *c13Workload) describe(cl c13Call) map[string]any {
	m := map[string]any{"fn": []string{"", "Satisfies", "ExtractLicenses", "ValidateLicenses"}[cl.Fn]}
	if cl.Fn != 3 {
		m["expr"] = ev.QS(w.exprs[cl.Expr])
	}
	if cl.Fn != 2 {
		m["list"] = ev.QSs(w.lists[cl.List])
	}
	return m
}

// mutated reports the first shared slice whose memory (whole capacity) differs from its snapshot.
func (w *c13Workload) mutated() (int, string) {
	for i, l := range w.lists {
		full := l[:cap(l)]
		if len(l) != len(w.snap[i])-4 {
			return i, "length changed"
		}
		for j := range full {
			if full[j] != w.snap[i][j] {
				return i, fmt.Sprintf("element %d changed from %q to %q", j, w.snap[i][j], full[j])
			}
		}
	}
	return -1, ""
}

type C13Case struct {
	Kind  string         `json:"kind"`
	Call  map[string]any `json:"call,omitempty"`
	Index int            `json:"index"`
	Want  string         `json:"want,omitempty"`
	Got   string         `json:"got,omitempty"`
	Order string         `json:"order,omitempty"`
}

func r0Path() string { return filepath.Join(os.Getenv("VERIF_RUNDIR"), "c13-R0.json") }

func loadR0(c *Ctx, w *c13Workload) []string {
	b, err := os.ReadFile(r0Path())
	if err != nil {
		fmt.Fprintln(os.Stderr, "harness: cannot read R0:", err)
		os.Exit(4)
	}
	var r0 []string
	if err := json.Unmarshal(b, &r0); err != nil || len(r0) != len(w.calls) {
		fmt.Fprintln(os.Stderr, "harness: R0 does not fit the workload")
		os.Exit(4)
	}
	return r0
}

func fnName(fn int) string { return []string{"", "Satisfies", "ExtractLicenses", "ValidateLicenses"}[fn] }

func (c *Ctx) c13Differs(w *c13Workload, i int, want, got, order string) {
	cl := w.calls[i]
	c.Violation(fmt.Sprintf("result-differs:%s:%d", fnName(cl.Fn), i), "C13.history", C13Case{Kind: "differs", Call: w.describe(cl), Index: i, Want: want, Got: got, Order: order},
		"call #%d %v returned %q in a fresh single-goroutine process but %q %s", i, w.describe(cl), want, got, order)
}

func (c *Ctx) c13CheckMutation(w *c13Workload, after string) bool {
	if li, what := w.mutated(); li >= 0 {
		c.Violation("arg-mutated:list"+strconv.Itoa(li), "C13.immutability", C13Case{Kind: "mutated", Index: li, Got: what, Order: after},
			"shared argument slice #%d was modified (%s) %s", li, what, after)
		// restore so that later calls are judged on the intended arguments
		copy(w.lists[li][:cap(w.lists[li])], w.snap[li])
		return true
	}
	return false
}

func runC13(c *Ctx, phase string) {
	w := buildC13Workload(c)
	switch phase {
	case "ref":
		c.Meta("a fixed workload W of call descriptors (all three functions; valid, invalid, compound, reference-bearing expressions; ids from all lists) over 14 shared argument slices that carry sentinel strings in their spare capacity. "+
			"R0 = results of W in canonical order in a fresh single-goroutine child. History independence: fresh children run W twice in seeded permutations (one of them reversed) and every result (value, exact error text, output order) must equal R0. "+
			"Concurrency: a -race build runs G goroutines x GOMAXPROCS on the same slices, every result is compared online with R0, data-race reports are collected from the race log, and the call pairs that really overlapped in time are counted from per-call begin/end ticks. "+
			"Immutability: the whole capacity of every shared slice is compared with a snapshot after each sequential call and after the concurrent phase. Silence: fd 1 and fd 2 of every child go to files that must stay empty; thorough also traces the sequential run with strace. "+
			"distinct = (phase, order/goroutine, call index); non-trivial = a call whose result was compared with R0",
			false, fmt.Sprintf("|W|=%d calls; history children=%d; goroutines up to 128", len(w.calls), c.Pick(6, 40)),
			"schedules are observed, not enumerated: the race detector flags unordered conflicting accesses only if both are executed in the run",
			"porcupine is not used: the sequential specification is stateless, so linearizability collapses to 'each result equals R0[i]', which is checked exactly")
		c.Floor("hist_results_compared", int64(len(w.calls)*c.Pick(6, 40)))
		c.Floor("conc_results_compared", int64(c.Pick(40000, 1000000)))
		c.Floor("overlapping_call_pairs", 10000)
		c.Floor("fn_pairs_overlapped", 9)
		c.Floor("shared_slices_used_concurrently", int64(len(w.lists)))
		c.Floor("immutability_checks", int64(len(w.calls)))
		c.Floor("silent_children", int64(1+c.Pick(6, 40)+8+1+4))
		c.Floor("reuse_cases", int64(c.Pick(4000, 40000)))
		c.Floor("results_after_table_clobbering", int64(len(w.calls)))
		c.Floor("churn_results_compared", int64(c.Pick(12000, 60000)))
		r0 := make([]string, len(w.calls))
		for i, cl := range w.calls {
			c.begin(uint32(cl.Fn), "c13 call #"+strconv.Itoa(i))
			r0[i] = w.exec(cl)
			c.end()
			c.Inc("immutability_checks")
			c.c13CheckMutation(w, fmt.Sprintf("by call #%d %v", i, w.describe(cl)))
			if strings.HasPrefix(r0[i], "PANIC") {
				c.Violation("panic:"+fnName(cl.Fn), "C13.history", C13Case{Kind: "panic", Call: w.describe(cl), Index: i, Got: r0[i]}, "call #%d panicked: %s", i, r0[i])
			}
		}
		// determinism inside one process: same call again right away
		for i, cl := range w.calls {
			if got := w.exec(cl); got != r0[i] {
				c.c13Differs(w, i, r0[i], got, "when repeated in the same process")
			}
			c.Inc("same_process_repeats")
		}
		b, _ := json.Marshal(r0)
		if err := os.WriteFile(r0Path(), b, 0o644); err != nil {
			fmt.Fprintln(os.Stderr, "harness: cannot write R0:", err)
			os.Exit(4)
		}
		c.Sample(map[string]any{"call": w.describe(w.calls[len(w.calls)/2]), "R0": r0[len(w.calls)/2]})
		c.Count("workload_calls", int64(len(w.calls)))
	case "hist":
		r0 := loadR0(c, w)
		for round := 0; round < 2; round++ {
			rr := gen.NewRand(c.Seed, 0xC131, uint64(c.Shard), uint64(round))
			perm := rr.Perm(len(w.calls))
			order := fmt.Sprintf("in permutation seed=(%d,%d,%d)", c.Seed, c.Shard, round)
			if c.Shard == 0 && round == 0 {
				for i := range perm {
					perm[i] = len(perm) - 1 - i
				}
				order = "in reverse order"
			}
			for _, i := range perm {
				cl := w.calls[i]
				c.begin(uint32(cl.Fn), "c13 call #"+strconv.Itoa(i))
				got := w.exec(cl)
				c.end()
				c.Inc("hist_results_compared")
				c.Distinct(gen.HashStr("hist", strconv.Itoa(c.Shard), strconv.Itoa(round), strconv.Itoa(i)))
				if got != r0[i] {
					c.c13Differs(w, i, r0[i], got, order)
				}
				c.Inc("immutability_checks")
				c.c13CheckMutation(w, fmt.Sprintf("by call #%d %v", i, w.describe(cl)))
			}
		}
	case "reuse":
		runC13Reuse(c, w)
	case "tables":
		runC13Tables(c, w)
	case "conc":
		runC13Conc(c, w)
	case "strace":
		r0 := loadR0(c, w)
		marker("VERIF-BEGIN")
		for i, cl := range w.calls {
			got := w.exec(cl)
			if got != r0[i] {
				c.c13Differs(w, i, r0[i], got, "under strace")
			}
		}
		marker("VERIF-END")
		c.Count("strace_calls", int64(len(w.calls)))
	}
}

// satStr / valStr: canonical result strings of direct calls (same format as exec).
func satStr(e string, l []string) (res string) {
	defer func() {
		if p := recover(); p != nil {
			res = "PANIC " + panicText(p)
		}
	}()
	ok, err := spdxexp.Satisfies(e, l)
	if err != nil {
		return fmt.Sprintf("S %v ERR %s", ok, err.Error())
	}
	return fmt.Sprintf("S %v", ok)
}

func valStr(l []string) (res string) {
	defer func() {
		if p := recover(); p != nil {
			res = "PANIC " + panicText(p)
		}
	}()
	ok, inv := spdxexp.ValidateLicenses(l)
	return fmt.Sprintf("V %v %q", ok, inv)
}

func extStr(e string) (res string) {
	defer func() {
		if p := recover(); p != nil {
			res = "PANIC " + panicText(p)
		}
	}()
	l, err := spdxexp.ExtractLicenses(e)
	if err != nil {
		return fmt.Sprintf("E %q nil=%v ERR %s", l, l == nil, err.Error())
	}
	return fmt.Sprintf("E %q", l)
}

// runC13Reuse: results must depend on the CONTENTS of the arguments only. (1) the caller reuses one backing array for
// successive calls with different contents (in-place overwrite, refill of buf[:0], sub-slices at other offsets) and every
// result must equal the result for a fresh slice with the same contents; (2) many thousands of distinct expressions are
// pushed through once, then again in reverse order (a bounded cache that misbehaves after eviction shows as a difference).
func runC13Reuse(c *Ctx, w *c13Workload) {
	u := c.U
	nCases := c.Pick(4000, 40000)
	differs := func(kind, what, got, want string, cas any) {
		c.Violation("reuse:"+kind, "C13.reuse", C13Case{Kind: "reuse-" + kind, Got: got, Want: want, Order: what, Call: map[string]any{"case": cas}},
			"%s: the call on the reused slice returned %q, the same contents in a fresh slice give %q", what, got, want)
	}
	for i := 0; i < nCases; i++ {
		if !c.Mine(i) {
			continue
		}
		r := gen.NewRand(c.Seed, 0xC135, uint64(i))
		n := 1 + r.Intn(12)
		if r.Chance(1, 2) {
			n = 8 + r.Intn(60)
		}
		mkContents := func(m int) []string {
			l := make([]string, m)
			for j := range l {
				switch {
				case r.Chance(1, 40):
					l[j] = "NOT-A-LICENSE"
				case r.Chance(1, 40):
					l[j] = "MIT AND ISC"
				case r.Chance(1, 3):
					l[j] = r.Pick(u.InTable)
				default:
					l[j] = u.RandomTerm(r).Text()
				}
			}
			return l
		}
		e := w.exprs[r.Intn(len(w.exprs))]
		if r.Chance(1, 2) {
			e = r.Pick(u.InTable)
			if r.Chance(1, 2) {
				e += " OR " + r.Pick(u.Active)
			}
		}
		buf := make([]string, n, n+r.Intn(n+2))
		a := mkContents(n)
		b := mkContents(n)
		if r.Chance(1, 2) { // change a single entry only
			b = append([]string{}, a...)
			b[r.Intn(n)] = r.Pick([]string{"NOT-A-LICENSE", "MIT", r.Pick(u.InTable) + "+", "LicenseRef-other"})
		}
		m := 1 + r.Intn(cap(buf))
		d := mkContents(m)
		// all calls on the reused backing array first, back to back (a memo keyed on the slice's identity must not get a
		// chance to be displaced by the comparison calls), then the same contents in fresh slices
		copy(buf, a)
		g1 := satStr(e, buf)
		copy(buf, b) // in-place overwrite with other contents of the same length
		g2 := satStr(e, buf)
		g2v := valStr(buf)
		buf2 := append(buf[:0], d...) // refill buf[:0] with another number of entries
		g3 := satStr(e, buf2)
		g3v := valStr(buf2)
		var g4, g5 string
		if m >= 3 { // sub-slices of the same backing array at other offsets
			g4 = satStr(e, buf2[1:])
			g5 = satStr(e, buf2[:m-1])
		}
		c.evals += 14
		if want := satStr(e, append([]string{}, a...)); g1 != want {
			differs("first-use", "first call on a new buffer", g1, want, map[string]any{"expr": ev.QS(e), "list": ev.QSs(a)})
		}
		if want := satStr(e, append([]string{}, b...)); g2 != want {
			differs("overwrite", fmt.Sprintf("Satisfies(%q, buf) after buf (len %d) was overwritten in place", e, n), g2, want, map[string]any{"expr": ev.QS(e), "before": ev.QSs(a), "after": ev.QSs(b)})
		}
		if want := valStr(append([]string{}, b...)); g2v != want {
			differs("overwrite-validate", "ValidateLicenses(buf) after an in-place overwrite", g2v, want, map[string]any{"after": ev.QSs(b)})
		}
		if want := satStr(e, append([]string{}, d...)); g3 != want {
			differs("refill", fmt.Sprintf("Satisfies(%q, buf[:0] refilled with %d entries)", e, m), g3, want, map[string]any{"expr": ev.QS(e), "before": ev.QSs(b), "after": ev.QSs(d)})
		}
		if want := valStr(append([]string{}, d...)); g3v != want {
			differs("refill-validate", "ValidateLicenses(buf[:0] refilled)", g3v, want, map[string]any{"after": ev.QSs(d)})
		}
		if m >= 3 {
			if want := satStr(e, append([]string{}, d[1:]...)); g4 != want {
				differs("subslice", "Satisfies on buf[1:] of a backing array used before", g4, want, map[string]any{"expr": ev.QS(e), "list": ev.QSs(d[1:])})
			}
			if want := satStr(e, append([]string{}, d[:m-1]...)); g5 != want {
				differs("subslice", "Satisfies on buf[:n-1] of a backing array used before", g5, want, map[string]any{"expr": ev.QS(e), "list": ev.QSs(d[:m-1])})
			}
		}
		c.Inc("reuse_cases")
		c.Distinct(gen.HashStr("reuse", strconv.Itoa(i)))
	}
	// results belong to the caller: modifying a returned slice must not influence later calls
	for i := 0; i < 400; i++ {
		if !c.Mine(i) {
			continue
		}
		e := w.exprs[(i*13)%len(w.exprs)]
		l1, err1 := spdxexp.ExtractLicenses(e)
		want := fmt.Sprintf("%q %v", l1, err1 != nil)
		for j := range l1 {
			l1[j] = "clobbered-by-caller"
		}
		l1 = append(l1[:0], "x", "y")
		l2, err2 := spdxexp.ExtractLicenses(e)
		c.evals += 2
		if got := fmt.Sprintf("%q %v", l2, err2 != nil); got != want {
			c.Violation("result-aliased:ExtractLicenses", "C13.reuse", C13Case{Kind: "result-aliased", Call: map[string]any{"expr": ev.QS(e)}, Want: want, Got: got},
				"ExtractLicenses(%q) returned %s, the caller modified that slice, and the same call now returns %s", e, want, got)
		}
		lst := w.lists[i%14]
		_, inv1 := spdxexp.ValidateLicenses(lst)
		wantV := fmt.Sprintf("%q", inv1)
		for j := range inv1 {
			inv1[j] = "clobbered-by-caller"
		}
		_, inv2 := spdxexp.ValidateLicenses(lst)
		c.evals += 2
		if got := fmt.Sprintf("%q", inv2); got != wantV {
			c.Violation("result-aliased:ValidateLicenses", "C13.reuse", C13Case{Kind: "result-aliased", Want: wantV, Got: got},
				"ValidateLicenses returned %s, the caller modified that slice, and the same call now returns %s", wantV, got)
		}
		c.Inc("result_aliasing_checks")
	}
	// churn: many distinct inputs, then the same again in reverse (one child: the point is one process seeing them all)
	if c.Shard != 0 {
		return
	}
	nChurn := c.Pick(12000, 60000)
	exprs := make([]string, nChurn)
	first := make([]string, nChurn)
	for i := range exprs {
		tc := genRandomTree(c, "C13churn", i, 32)
		exprs[i] = string(tc.Text)
		if i%3 == 0 {
			exprs[i] = c.U.RandomTerm(gen.NewRand(c.Seed, 0xC136, uint64(i))).Text() + fmt.Sprintf(" OR LicenseRef-churn%d", i)
		}
		first[i] = extStr(exprs[i]) + " | " + satStr(exprs[i], w.lists[3])
		c.evals += 2
	}
	for i := nChurn - 1; i >= 0; i-- {
		c.evals += 2
		if got := extStr(exprs[i]) + " | " + satStr(exprs[i], w.lists[3]); got != first[i] {
			c.Violation("churn:differs", "C13.reuse", C13Case{Kind: "churn", Index: i, Want: first[i], Got: got, Call: map[string]any{"expr": ev.QS(exprs[i])}},
				"after %d other distinct inputs %q gives %q, the first time it gave %q", nChurn, exprs[i], got, first[i])
			break
		}
		c.Inc("churn_results_compared")
	}
	c.c13CheckMutation(w, "during the reuse/churn phase")
}

// clobberTables fetches the exported tables of package spdxlicenses and overwrites everything reachable from the
// returned values (the caller owns what a function returns).
func clobberTables() {
	for _, l := range [][]string{spdxlicenses.GetLicenses(), spdxlicenses.GetDeprecated(), spdxlicenses.GetExceptions()} {
		for i, j := 0, len(l)-1; i < j; i, j = i+1, j-1 {
			l[i], l[j] = l[j], l[i]
		}
		for i := range l {
			if i%3 == 0 {
				l[i] = "CLOBBERED-BY-CALLER"
			}
		}
	}
	t := spdxlicenses.LicenseRanges()
	for _, fam := range t {
		for i, j := 0, len(fam)-1; i < j; i, j = i+1, j-1 {
			fam[i], fam[j] = fam[j], fam[i]
		}
		for _, step := range fam {
			for k := range step {
				step[k] = "CLOBBERED-" + step[k]
			}
		}
	}
	for i, j := 0, len(t)-1; i < j; i, j = i+1, j-1 {
		t[i], t[j] = t[j], t[i]
	}
}

func tablesFingerprint() string {
	var b strings.Builder
	for _, l := range [][]string{spdxlicenses.GetLicenses(), spdxlicenses.GetDeprecated(), spdxlicenses.GetExceptions()} {
		b.WriteString(strings.Join(l, ","))
		b.WriteByte('|')
	}
	for _, fam := range spdxlicenses.LicenseRanges() {
		for _, step := range fam {
			b.WriteString(strings.Join(step, ","))
			b.WriteByte(';')
		}
		b.WriteByte('/')
	}
	return b.String()
}

// runC13Tables: what the exported table functions return belongs to the caller. After the caller has overwritten every
// returned slice, the tables returned next and every result of the workload must be what they were before.
func runC13Tables(c *Ctx, w *c13Workload) {
	r0 := loadR0(c, w)
	before := tablesFingerprint()
	for round := 0; round < 3; round++ {
		clobberTables()
		if after := tablesFingerprint(); after != before {
			c.Violation("tables-aliased", "C13.tables", C13Case{Kind: "tables-aliased"},
				"after the caller overwrote the slices returned by GetLicenses/GetDeprecated/GetExceptions/LicenseRanges, the next call returns different tables (first difference at byte %d)", firstDiff(before, after))
			return
		}
		for i, cl := range w.calls {
			if (i+round)%2 != 0 {
				continue
			}
			got := w.exec(cl)
			c.evals++
			c.Inc("results_after_table_clobbering")
			if got != r0[i] {
				c.c13Differs(w, i, r0[i], got, "after the caller overwrote the slices returned by the exported table functions")
				return
			}
		}
	}
	c.Distinct(gen.HashStr("tables-clobber"))
}

func firstDiff(a, b string) int {
	for i := 0; i < len(a) && i < len(b); i++ {
		if a[i] != b[i] {
			return i
		}
	}
	return imin(len(a), len(b))
}

var markerFd = -1

// marker makes a write(2) that is visible in the strace log (to /dev/null).
func marker(s string) {
	if markerFd < 0 {
		fd, err := syscall.Open("/dev/null", syscall.O_WRONLY, 0)
		if err != nil {
			return
		}
		markerFd = fd
	}
	syscall.Write(markerFd, []byte(s))
}

type callSpan struct {
	begin, end int64
	fn, list   int32
}

func runC13Conc(c *Ctx, w *c13Workload) {
	r0 := loadR0(c, w)
	type combo struct{ g, p int }
	combos := []combo{{2, 2}, {8, 16}, {32, 16}, {128, 16}}
	if c.Thorough() {
		combos = []combo{{2, 2}, {8, 2}, {8, 16}, {32, 2}, {32, 16}, {128, 2}, {128, 16}, {256, 16}}
	}
	cb := combos[c.Shard%len(combos)]
	runtime.GOMAXPROCS(cb.p)
	target := c.Pick(12000, 140000) // calls per combo
	rounds := target/(cb.g*len(w.calls)) + 1
	var clock int64
	type gres struct {
		spans []callSpan
		diffs [][3]string // index, want, got
		n     int
	}
	results := make([]gres, cb.g)
	var wg sync.WaitGroup
	start := make(chan struct{})
	c.begin(ev.FnNoteOnly, fmt.Sprintf("c13 concurrent phase G=%d P=%d", cb.g, cb.p))
	for g := 0; g < cb.g; g++ {
		wg.Add(1)
		go func(g int) {
			defer wg.Done()
			res := &results[g]
			res.spans = make([]callSpan, 0, rounds*len(w.calls))
			<-start
			for round := 0; round < rounds; round++ {
				rr := gen.NewRand(c.Seed, 0xC132, uint64(g), uint64(round), uint64(c.Shard))
				for _, i := range rr.Perm(len(w.calls)) {
					cl := w.calls[i]
					b := atomic.AddInt64(&clock, 1)
					got := w.exec(cl)
					e := atomic.AddInt64(&clock, 1)
					li := int32(-1)
					if cl.Fn != 2 {
						li = int32(cl.List)
					}
					res.spans = append(res.spans, callSpan{b, e, int32(cl.Fn), li})
					res.n++
					if got != r0[i] && len(res.diffs) < 20 {
						res.diffs = append(res.diffs, [3]string{strconv.Itoa(i), r0[i], got})
					}
				}
			}
		}(g)
	}
	stop := make(chan struct{})
	var cw sync.WaitGroup
	for k := 0; k < 2; k++ {
		cw.Add(1)
		go func() {
			defer cw.Done()
			n := 0
			for {
				select {
				case <-stop:
					return
				default:
				}
				clobberTables()
				n++
				if n%4 == 0 {
					runtime.Gosched()
				}
			}
		}()
	}
	close(start)
	wg.Wait()
	close(stop)
	cw.Wait()
	c.end()
	// merge (monitor state was per goroutine; merged at quiescence)
	var spans []callSpan
	for g := range results {
		c.Count("conc_results_compared", int64(results[g].n))
		c.evals += int64(results[g].n)
		for _, d := range results[g].diffs {
			i, _ := strconv.Atoi(d[0])
			c.c13Differs(w, i, d[1], d[2], fmt.Sprintf("when called concurrently (G=%d, GOMAXPROCS=%d)", cb.g, cb.p))
		}
		spans = append(spans, results[g].spans...)
		c.Distinct(gen.HashStr("conc", strconv.Itoa(c.Shard), strconv.Itoa(g)))
	}
	c.Inc("immutability_checks")
	c.c13CheckMutation(w, fmt.Sprintf("during the concurrent phase (G=%d, GOMAXPROCS=%d)", cb.g, cb.p))
	// overlap measurement: sweep over begin ticks
	sort.Slice(spans, func(i, j int) bool { return spans[i].begin < spans[j].begin })
	var pairCount [4][4]int64
	listConc := map[int32]bool{}
	var total int64
	active := make([]callSpan, 0, 1024)
	for _, s := range spans {
		k := 0
		for _, a := range active {
			if a.end > s.begin {
				active[k] = a
				k++
			}
		}
		active = active[:k]
		for _, a := range active {
			pairCount[a.fn][s.fn]++
			total++
			if a.list >= 0 && a.list == s.list {
				listConc[a.list] = true
			}
		}
		active = append(active, s)
	}
	c.Count("overlapping_call_pairs", total)
	c.Max("goroutines", int64(cb.g))
	c.Note("combo G=%d GOMAXPROCS=%d rounds=%d calls=%d overlapping pairs=%d", cb.g, cb.p, rounds, len(spans), total)
	// report which fn x fn combinations overlapped and which slices were shared in time as bit sets (merged by max is wrong
	// for sets, so they are reported as individual counters that the orchestrator sums; the floor is on the derived counter below)
	for a := 1; a <= 3; a++ {
		for b := 1; b <= 3; b++ {
			if pairCount[a][b]+pairCount[b][a] > 0 {
				c.Max(fmt.Sprintf("overlap_%s_%s", fnName(a), fnName(b)), pairCount[a][b]+pairCount[b][a])
			}
		}
	}
	for li := range w.lists {
		if listConc[int32(li)] {
			c.Max(fmt.Sprintf("slice_%d_shared_in_time", li), 1)
		}
	}
	c.Sample(map[string]any{"goroutines": cb.g, "gomaxprocs": cb.p, "calls": len(spans), "overlapping_call_pairs": total})
}

func replayC13(c *Ctx, rule string, raw json.RawMessage) {
	// a C13 violation is a property of a history / schedule: replay re-runs the sequential part
	// (reference run, repeat, reverse order) in this process and reports any difference.
	w := buildC13Workload(c)
	r0 := make([]string, len(w.calls))
	for i, cl := range w.calls {
		r0[i] = w.exec(cl)
		c.c13CheckMutation(w, fmt.Sprintf("by call #%d", i))
	}
	for i := len(w.calls) - 1; i >= 0; i-- {
		if got := w.exec(w.calls[i]); got != r0[i] {
			c.c13Differs(w, i, r0[i], got, "in reverse order in the same process")
		}
	}
	if strings.HasPrefix(rule, "C13.reuse") {
		c.Tier = "quick"
		runC13Reuse(c, w)
	}
	fmt.Println("C13 replay re-ran the sequential workload (and the buffer-reuse cases for C13.reuse); concurrency findings need ./check C13 quick")
}
