// worker runs the monitors of one property against the library of the tree under check.
//
//	worker run    -prop C01 -tier quick -seed 1 -shard 0 -nshards 16 -out ev.jsonl -journal j.bin -distinct d.bin [-phase p]
//	worker replay -file replay.json
package main

import (
	"bufio"
	"encoding/json"
	"flag"
	"fmt"
	"os"
	"strings"
	"time"

	"verif/mon/internal/ev"
	"verif/mon/internal/gen"
)

type monitor struct {
	run    func(c *Ctx, phase string)
	replay func(c *Ctx, rule string, raw json.RawMessage)
}

var monitors = map[string]monitor{}

func register(prop string, run func(c *Ctx, phase string), replay func(c *Ctx, rule string, raw json.RawMessage)) {
	monitors[prop] = monitor{run, replay}
}

func main() {
	if len(os.Args) < 2 {
		fmt.Fprintln(os.Stderr, "usage: worker run|replay ...")
		os.Exit(4)
	}
	switch os.Args[1] {
	case "run":
		runCmd(os.Args[2:])
	case "replay":
		replayCmd(os.Args[2:])
	default:
		fmt.Fprintln(os.Stderr, "unknown sub-command", os.Args[1])
		os.Exit(4)
	}
}

func newCtx(prop, tier string, seed uint64, shard, nshards int) *Ctx {
	return &Ctx{Prop: prop, Tier: tier, Seed: seed, Shard: shard, NShards: nshards,
		U: gen.Load(), counters: map[string]int64{}, distinct: map[uint64]struct{}{}, violKeys: map[string]int64{},
		start: time.Now()}
}

func runCmd(args []string) {
	fs := flag.NewFlagSet("run", flag.ExitOnError)
	prop := fs.String("prop", "", "property id")
	tier := fs.String("tier", "quick", "quick|thorough")
	seed := fs.Uint64("seed", 1, "VERIF_SEED")
	shard := fs.Int("shard", 0, "")
	nshards := fs.Int("nshards", 1, "")
	out := fs.String("out", "", "event file")
	journal := fs.String("journal", "", "journal file")
	dist := fs.String("distinct", "", "distinct-hash file")
	phase := fs.String("phase", "", "sub-phase of the monitor (property specific)")
	memcap := fs.Uint64("memcap", 6<<30, "heap cap in bytes")
	fs.Parse(args)
	m, ok := monitors[*prop]
	if !ok {
		fmt.Fprintln(os.Stderr, "no monitor for", *prop)
		os.Exit(4)
	}
	c := newCtx(*prop, *tier, *seed, *shard, *nshards)
	if *out != "" {
		f, err := os.Create(*out)
		if err != nil {
			fmt.Fprintln(os.Stderr, err)
			os.Exit(4)
		}
		c.outFile = f
		c.out = bufio.NewWriterSize(f, 1<<16)
	}
	if *journal != "" {
		c.openJournal(*journal)
	}
	c.distFile = *dist
	memWatch(*memcap)
	m.run(c, *phase)
	c.Finish()
}

func replayCmd(args []string) {
	fs := flag.NewFlagSet("replay", flag.ExitOnError)
	file := fs.String("file", "", "replay file")
	fs.Parse(args)
	b, err := os.ReadFile(*file)
	if err != nil {
		fmt.Fprintln(os.Stderr, err)
		os.Exit(4)
	}
	var r ev.Replay
	if err := json.Unmarshal(b, &r); err != nil {
		fmt.Fprintln(os.Stderr, "bad replay file:", err)
		os.Exit(4)
	}
	m, ok := monitors[r.Property]
	if !ok || m.replay == nil {
		fmt.Fprintln(os.Stderr, "no replay for", r.Property)
		os.Exit(4)
	}
	c := newCtx(r.Property, r.Tier, uint64(r.Seed), 0, 1)
	c.Replay = true
	if strings.HasSuffix(r.Rule, ".fatal") || strings.HasSuffix(r.Rule, ".memcap") {
		replayCrash(c, r.Case)
	} else {
		m.replay(c, r.Rule, r.Case)
	}
	if c.nViol > 0 {
		fmt.Printf("VIOLATION property=%s replay=%s\n", r.Property, *file)
		os.Exit(1)
	}
	fmt.Printf("replay: property=%s key=%s not reproduced on this tree\n", r.Property, r.Key)
}
