package main

import (
	"strings"

	"verif/mon/internal/ev"
	"verif/mon/internal/gen"
)

// TreeCase is a generated expression: the harness-built tree is the ground truth for the meaning
// of Text, which is rendered from it. Everything needed to replay is in here.
type TreeCase struct {
	Index  int        `json:"index"`
	Source string     `json:"source"` // "exhaustive" | "random"
	Shape  int        `json:"shape"`
	Terms  []gen.Term `json:"terms"`
	Leaf   []ev.QS    `json:"leaf_text"` // text of every pool term (as rendered inside Text)
	Tree   *gen.Node  `json:"tree"`
	Paren  int        `json:"paren"`
	Text   ev.QS      `json:"text"`
}

func (t *TreeCase) LeafTexts() []string { return ev.Strs(t.Leaf) }

func termKind(u *gen.Universe, t gen.Term) string {
	if t.Ref {
		if t.DocRef != "" {
			return "docref"
		}
		return "ref"
	}
	k := "plain"
	switch {
	case t.Spell == gen.SpPlus:
		k = "plus"
	case t.Spell == gen.SpOnly:
		k = "synth_only"
	case t.Spell == gen.SpLater:
		k = "synth_later"
	case strings.HasSuffix(t.ID, "-or-later"):
		k = "listed_later"
	case strings.HasSuffix(t.ID, "-only"):
		k = "listed_only"
	case strings.Contains(t.ID, "+"):
		k = "dep_plus_id"
	case u.DepSet[t.ID]:
		k = "deprecated"
	}
	if t.Exc != "" {
		k += "_with"
	}
	return k
}

// related returns a term related to t: same family other version, same id other spelling/case,
// same id other exception. Used to make allowed lists where matching is not one-to-one.
func relatedTerm(u *gen.Universe, r *gen.Rand, t gen.Term) gen.Term {
	o := relatedTerm1(u, r, t)
	if r.Chance(1, 4) {
		// two steps away: e.g. another version of the family AND another exception
		o = relatedTerm1(u, r, o)
	}
	return o
}

func relatedTerm1(u *gen.Universe, r *gen.Rand, t gen.Term) gen.Term {
	if t.Ref {
		o := t
		switch r.Intn(3) {
		case 0:
			o.DocRef = r.Pick(gen.RefNames)
		case 1:
			o.DocRef = ""
		default:
			o.LicRef = r.Pick(gen.RefNames)
		}
		return o
	}
	o := t
	switch r.Intn(5) {
	case 0: // other member of the family
		if ps := u.TablePos(t.ID); len(ps) > 0 {
			mem := u.FamilyMembers(ps[0].Family)
			o.ID = r.Pick(mem)
			o.Spell = gen.SpPlain
			if r.Chance(1, 2) && u.SpellOK(o.ID, gen.SpPlus) {
				o.Spell = gen.SpPlus
			}
			return o
		}
		fallthrough
	case 1: // other spelling
		for try := 0; try < 6; try++ {
			sp := r.Intn(4)
			if sp != t.Spell && u.SpellOK(t.ID, sp) {
				o.Spell = sp
				return o
			}
		}
		fallthrough
	case 2: // other case
		o.Case = 1 + r.Intn(3)
		o.CaseKey = r.U64()
		return o
	case 3: // other exception
		if o.Exc == "" || r.Chance(1, 2) {
			o.Exc = r.Pick(u.Exceptions)
		} else {
			o.Exc = ""
		}
		return o
	}
	return u.RandomTerm(r)
}

// randomPool draws k terms with pairwise different text; some are deliberately related.
func randomPool(u *gen.Universe, r *gen.Rand, k int) []gen.Term {
	var pool []gen.Term
	seen := map[string]bool{}
	for len(pool) < k {
		var t gen.Term
		if len(pool) > 0 && r.Chance(1, 3) {
			t = relatedTerm(u, r, pool[r.Intn(len(pool))])
		} else {
			t = u.RandomTerm(r)
		}
		tx := t.Text()
		if seen[tx] {
			continue
		}
		seen[tx] = true
		pool = append(pool, t)
	}
	return pool
}

// genRandomTree builds random tree case number idx (independent of the shard count).
func genRandomTree(c *Ctx, stream string, idx int, maxDNF int64) *TreeCase {
	return genRandomTreeK(c, stream, idx, maxDNF, 7)
}

// genRandomTreeK is genRandomTree with up to maxK distinct terms (monitors that enumerate all subsets of the
// terms keep maxK at 7; those that do not may go higher).
func genRandomTreeK(c *Ctx, stream string, idx int, maxDNF int64, maxK int) *TreeCase {
	for attempt := 0; ; attempt++ {
		r := gen.NewRand(c.Seed, gen.HashStr(stream), uint64(idx), uint64(attempt))
		k := 1 + r.Intn(7)
		if maxK > 7 && r.Chance(1, 5) {
			k = 8 + r.Intn(maxK-7)
		}
		shape := r.Intn(gen.NumShapes)
		nLeaves := k + r.Intn(6)
		if r.Chance(1, 10) {
			nLeaves += r.Intn(12)
		}
		if r.Chance(1, 25) && k >= 2 {
			// long chains (30..120 terms over the same small pool): code that switches strategy above a length threshold
			shape = gen.ShapeLongChain
			nLeaves = 30 + r.Intn(90)
		}
		pool := randomPool(c.U, r, k)
		tree := gen.RandomTree(r, shape, nLeaves, k)
		if tree.DNFSize() > maxDNF || (tree.Depth() > 24 && shape != gen.ShapeLongChain) {
			continue
		}
		paren := r.Intn(3)
		leaf := make([]string, len(pool))
		for i, t := range pool {
			leaf[i] = t.Text()
		}
		text := tree.Render(leaf, gen.RenderOpt{Paren: paren, Spaces: r.Chance(1, 3), R: r})
		return &TreeCase{Index: idx, Source: "random", Shape: shape, Terms: pool, Leaf: ev.QSs(leaf), Tree: tree, Paren: paren, Text: ev.QS(text)}
	}
}

func (c *Ctx) countTreeCoverage(tc *TreeCase) {
	c.Inc("shape_" + []string{"random", "left_chain", "right_chain", "balanced", "or_and_or", "andchain_x_or", "long_chain"}[tc.Shape%(gen.NumShapes+1)])
	c.CountIf(tc.Tree.DNFSize() >= 64, "trees_with_64plus_alternatives")
	if tc.Tree.HasOrUnderAndUnderOr() {
		c.Inc("trees_or_under_and_under_or")
	}
	var walk func(n *gen.Node, parent string)
	walk = func(n *gen.Node, parent string) {
		if n.IsLeaf() {
			if parent != "" {
				c.Inc("kind_" + termKind(c.U, tc.Terms[n.Leaf]) + "_under_" + parent)
			}
			return
		}
		walk(n.L, n.Op)
		walk(n.R, n.Op)
	}
	walk(tc.Tree, "")
	c.Max("depth", int64(tc.Tree.Depth()))
	c.Max("dnf_alternatives", tc.Tree.DNFSize())
	c.Max("distinct_terms", int64(len(tc.Terms)))
}

func treeKey(tc *TreeCase) string {
	var b strings.Builder
	tc.Tree.Canon(&b)
	s := b.String()
	if len(s) > 80 {
		s = s[:80] + "…"
	}
	return s
}

func evQS(s string) ev.QS { return ev.QS(s) }
