package main

import (
	"strings"

	"verif/mon/internal/ev"
	"verif/mon/internal/gen"
)

// TreeCase is a generated expression: the harness-built tree is the ground truth for the meaning
// of Text, which is rendered from it. Everything needed to replay is in here.
type TreeCase struct {
	Index  int        `json:"index"`
	Source string     `json:"source"` // "exhaustive" | "random"
	Shape  int        `json:"shape"`
	Terms  []gen.Term `json:"terms"`
	Leaf   []ev.QS    `json:"leaf_text"` // text of every pool term (as rendered inside Text)
	Tree   *gen.Node  `json:"tree"`
	Paren  int        `json:"paren"`
	Text   ev.QS      `json:"text"`
}

func (t *TreeCase) LeafTexts() []string { return ev.Strs(t.Leaf) }

func termKind(u *gen.Universe, t gen.Term) string {
	if t.Ref {
		if t.DocRef != "" {
			return "docref"
		}
		return "ref"
	}
	k := "plain"
	switch {
	case t.Spell == gen.SpPlus:
		k = "plus"
	case t.Spell == gen.SpOnly || t.Spell == gen.SpOnlyPlus:
		k = "synth_only"
	case t.Spell == gen.SpLater || t.Spell == gen.SpLaterPlus:
		k = "synth_later"
	case strings.HasSuffix(t.ID, "-or-later"):
		k = "listed_later"
	case strings.HasSuffix(t.ID, "-only"):
		k = "listed_only"
	case strings.Contains(t.ID, "+"):
		k = "dep_plus_id"
	case u.DepSet[t.ID]:
		k = "deprecated"
	}
	if t.Exc != "" {
		k += "_with"
	}
	return k
}

// related returns a term related to t: same family other version, same id other spelling/case,
// same id other exception. Used to make allowed lists where matching is not one-to-one.
func relatedTerm(u *gen.Universe, r *gen.Rand, t gen.Term) gen.Term {
	o := relatedTerm1(u, r, t)
	if r.Chance(1, 4) {
		// two steps away: e.g. another version of the family AND another exception
		o = relatedTerm1(u, r, o)
	}
	return o
}

func relatedTerm1(u *gen.Universe, r *gen.Rand, t gen.Term) gen.Term {
	if t.Ref {
		o := t
		switch r.Intn(3) {
		case 0:
			o.DocRef = r.Pick(gen.RefNames)
		case 1:
			o.DocRef = ""
		default:
			o.LicRef = r.Pick(gen.RefNames)
		}
		return o
	}
	o := t
	switch r.Intn(5) {
	case 0: // other member of the family
		if ps := u.TablePos(t.ID); len(ps) > 0 {
			mem := u.FamilyMembers(ps[0].Family)
			o.ID = r.Pick(mem)
			o.Spell = gen.SpPlain
			if r.Chance(1, 2) && u.SpellOK(o.ID, gen.SpPlus) {
				o.Spell = gen.SpPlus
			}
			return o
		}
		fallthrough
	case 1: // other spelling
		for try := 0; try < 6; try++ {
			sp := r.Intn(4)
			if sp != t.Spell && u.SpellOK(t.ID, sp) {
				o.Spell = sp
				return o
			}
		}
		fallthrough
	case 2: // other case
		o.Case = 1 + r.Intn(3)
		o.CaseKey = r.U64()
		return o
	case 3: // other exception
		if o.Exc == "" || r.Chance(1, 2) {
			o.Exc = r.Pick(u.Exceptions)
		} else {
			o.Exc = ""
		}
		return o
	}
	return u.RandomTerm(r)
}

// randomPool draws k terms with pairwise different text; some are deliberately related.
func randomPool(u *gen.Universe, r *gen.Rand, k int) []gen.Term {
	var pool []gen.Term
	seen := map[string]bool{}
	if cp := collisionPool(u); k >= 3 && k <= len(cp) && r.Chance(1, 10) {
		// one cluster of three (x, y and the reference spelled like x followed by y) plus other members of the pool
		g := 3 * r.Intn(4)
		pool = append(pool, cp[g], cp[g+1], cp[g+2])
		for _, j := range r.Perm(len(cp)) {
			if len(pool) < k && (j < g || j > g+2) {
				pool = append(pool, cp[j])
			}
		}
		for i, j := range r.Perm(len(pool)) {
			pool[i], pool[j] = pool[j], pool[i]
		}
		return pool
	}
	for len(pool) < k {
		var t gen.Term
		if len(pool) > 0 && r.Chance(1, 3) {
			t = relatedTerm(u, r, pool[r.Intn(len(pool))])
		} else {
			t = u.RandomTerm(r)
		}
		tx := t.Text()
		if seen[tx] {
			continue
		}
		seen[tx] = true
		pool = append(pool, t)
	}
	return pool
}

// genRandomTree builds random tree case number idx (independent of the shard count).
func genRandomTree(c *Ctx, stream string, idx int, maxDNF int64) *TreeCase {
	return genRandomTreeK(c, stream, idx, maxDNF, 7)
}

// genRandomTreeK is genRandomTree with up to maxK distinct terms (monitors that enumerate all subsets of the
// terms keep maxK at 7; those that do not may go higher).
func genRandomTreeK(c *Ctx, stream string, idx int, maxDNF int64, maxK int) *TreeCase {
	for attempt := 0; ; attempt++ {
		r := gen.NewRand(c.Seed, gen.HashStr(stream), uint64(idx), uint64(attempt))
		k := 1 + r.Intn(7)
		if maxK > 7 && r.Chance(1, 5) {
			k = 8 + r.Intn(maxK-7)
		}
		shape := r.Intn(gen.NumShapes)
		nLeaves := k + r.Intn(6)
		if r.Chance(1, 10) {
			nLeaves += r.Intn(12)
		}
		if r.Chance(1, 25) && k >= 2 {
			// long chains (30..120 terms over the same small pool): code that switches strategy above a length threshold
			shape = gen.ShapeLongChain
			nLeaves = 30 + r.Intn(90)
		}
		pool := randomPool(c.U, r, k)
		tree := gen.RandomTree(r, shape, nLeaves, k)
		if tree.DNFSize() > maxDNF || (tree.Depth() > 24 && shape != gen.ShapeLongChain) {
			continue
		}
		paren := r.Intn(3)
		leaf := make([]string, len(pool))
		for i, t := range pool {
			leaf[i] = t.Text()
		}
		text := tree.Render(leaf, gen.RenderOpt{Paren: paren, Spaces: r.Chance(1, 3), R: r})
		return &TreeCase{Index: idx, Source: "random", Shape: shape, Terms: pool, Leaf: ev.QSs(leaf), Tree: tree, Paren: paren, Text: ev.QS(text)}
	}
}

func (c *Ctx) countTreeCoverage(tc *TreeCase) {
	c.Inc("shape_" + []string{"random", "left_chain", "right_chain", "balanced", "or_and_or", "andchain_x_or", "long_chain"}[tc.Shape%(gen.NumShapes+1)])
	c.CountIf(tc.Tree.DNFSize() >= 64, "trees_with_64plus_alternatives")
	if tc.Tree.HasOrUnderAndUnderOr() {
		c.Inc("trees_or_under_and_under_or")
	}
	var walk func(n *gen.Node, parent string)
	walk = func(n *gen.Node, parent string) {
		if n.IsLeaf() {
			if parent != "" {
				c.Inc("kind_" + termKind(c.U, tc.Terms[n.Leaf]) + "_under_" + parent)
			}
			return
		}
		walk(n.L, n.Op)
		walk(n.R, n.Op)
	}
	walk(tc.Tree, "")
	c.Max("depth", int64(tc.Tree.Depth()))
	c.Max("dnf_alternatives", tc.Tree.DNFSize())
	c.Max("distinct_terms", int64(len(tc.Terms)))
}

func treeKey(tc *TreeCase) string {
	var b strings.Builder
	tc.Tree.Canon(&b)
	s := b.String()
	if len(s) > 80 {
		s = s[:80] + "…"
	}
	return s
}

func evQS(s string) ev.QS { return ev.QS(s) }

// BigCase is a large-scale case: many distinct terms and/or a long allowed list. Leaf truth for such cases comes from the
// matching model of C02 (ref.Match over harness denotations), not from k x |A| extra library calls.
type BigCase struct {
	Mode    string     `json:"mode"` // many-terms | long-list
	Terms   []gen.Term `json:"terms"`
	Tree    *gen.Node  `json:"tree"`
	Text    ev.QS      `json:"text"`
	Allowed []gen.Term `json:"allowed"`
}

// distinctTerms draws k terms with pairwise different text.
func distinctTerms(u *gen.Universe, r *gen.Rand, k int, plainOnly bool) []gen.Term {
	seen := map[string]bool{}
	var out []gen.Term
	for len(out) < k {
		var t gen.Term
		if plainOnly {
			t = gen.Term{ID: r.Pick(u.Active)}
		} else {
			t = u.RandomTerm(r)
		}
		if tx := t.Text(); !seen[tx] {
			seen[tx] = true
			out = append(out, t)
		}
	}
	return out
}

// genBigCase builds large-scale case idx: mode "many-terms" has 65..160 distinct terms (chain or grouped shape, small
// expansion) and an allowed list of up to 60 entries; mode "long-list" has up to 8 terms and 256..700 allowed entries.
func genBigCase(c *Ctx, stream string, idx int) *BigCase {
	u := c.U
	r := gen.NewRand(c.Seed, gen.HashStr(stream), 0xB16, uint64(idx))
	bc := &BigCase{}
	if idx%2 == 0 {
		bc.Mode = "many-terms"
		k := 65 + r.Intn(96)
		if c.Thorough() && idx%16 == 0 {
			k = 200 + r.Intn(200) // XL (the library compares every term with every allowed entry at ~40 us each: 400 x 400 is the practical limit)
		}
		bc.Terms = distinctTerms(u, r, k, r.Chance(1, 2))
		// shape: one dominant operator; sometimes small groups of the other operator (expansion stays small)
		dom, other := "and", "or"
		if r.Chance(1, 2) {
			dom, other = "or", "and"
		}
		var t *gen.Node
		for i := 0; i < k; i++ {
			n := gen.LeafN(i)
			if dom == "or" && r.Chance(1, 6) && i+1 < k {
				n = gen.Bin(other, n, gen.LeafN(i+1))
				i++
			}
			if t == nil {
				t = n
			} else if r.Chance(1, 2) {
				t = gen.Bin(dom, t, n)
			} else {
				t = gen.Bin(dom, n, t)
			}
		}
		bc.Tree = t
		// allowed: all / all but one (first, last or random) / a random half / few
		switch r.Intn(5) {
		case 0:
			bc.Allowed = append([]gen.Term{}, bc.Terms...)
		case 1, 2:
			drop := []int{0, k - 1, 63, 64, r.Intn(k)}[r.Intn(5)]
			for i, t := range bc.Terms {
				if i != drop {
					bc.Allowed = append(bc.Allowed, t)
				}
			}
		case 3:
			for _, t := range bc.Terms {
				if r.Chance(1, 2) {
					bc.Allowed = append(bc.Allowed, t)
				}
			}
		default:
			bc.Allowed = []gen.Term{bc.Terms[r.Intn(k)], bc.Terms[k-1]}
		}
		if len(bc.Allowed) == 0 {
			bc.Allowed = []gen.Term{bc.Terms[0]}
		}
	} else {
		bc.Mode = "long-list"
		k := 1 + r.Intn(8)
		bc.Terms = randomPool(u, r, k)
		bc.Tree = gen.RandomTree(r, r.Intn(gen.NumShapes), k+r.Intn(4), k)
		n := 256 + r.Intn(450)
		if c.Thorough() && idx%16 == 1 {
			n = 1000 + r.Intn(4000) // XL
		}
		for len(bc.Allowed) < n {
			bc.Allowed = append(bc.Allowed, gen.Term{ID: r.Pick(u.Active)})
			if r.Chance(1, 6) {
				bc.Allowed = append(bc.Allowed, u.RandomTerm(r))
			}
		}
		// the entries that matter sit anywhere, also at the very end / in the last incomplete block
		for _, t := range bc.Terms {
			if r.Chance(2, 3) {
				m := t
				if r.Chance(1, 3) {
					m = relatedTerm(u, r, t)
				}
				pos := []int{0, len(bc.Allowed) - 1, len(bc.Allowed) - 2, r.Intn(len(bc.Allowed))}[r.Intn(4)]
				bc.Allowed[pos] = m
			}
		}
	}
	leaf := make([]string, len(bc.Terms))
	for i, t := range bc.Terms {
		leaf[i] = t.Text()
	}
	bc.Text = ev.QS(bc.Tree.Render(leaf, gen.RenderOpt{Paren: gen.ParenMinimal}))
	return bc
}

func termTexts(ts []gen.Term) []string {
	out := make([]string, len(ts))
	for i, t := range ts {
		out[i] = t.Text()
	}
	return out
}

// bigString is a large input with known validity and structure.
type bigString struct {
	Name     string
	S        string
	Valid    bool
	Compound bool
}

// bigStrings builds large inputs: sizes beyond every buffer / batch / index threshold one might plausibly choose
// (64 KiB tokens, 10^4 nesting levels, 512+ ids per expression), valid by construction, plus one-character corruptions.
func bigStrings(u *gen.Universe, r *gen.Rand) []bigString { return bigStringsTier(u, r, false) }

func bigStringsTier(u *gen.Universe, r *gen.Rand, xl bool) []bigString {
	ids := func(n int, mutateTail int) []string {
		out := make([]string, n)
		for i := range out {
			out[i] = u.ActPlain[(i*7+r.Intn(3))%len(u.ActPlain)]
			if i >= n-mutateTail {
				switch i % 3 {
				case 0:
					out[i] = strings.ToLower(out[i])
				case 1:
					out[i] = strings.ToUpper(out[i])
				}
			}
		}
		return out
	}
	var out []bigString
	add := func(name, s string, valid, compound bool) { out = append(out, bigString{name, s, valid, compound}) }
	nest := func(n int) string { return strings.Repeat("(", n) + "MIT" + strings.Repeat(")", n) }
	add("nest-10001", nest(10001), true, false)
	add("nest-33000", nest(33000), true, false)
	add("nest-33000-unbalanced", nest(33000)+")", false, false)
	add("licenseref-70000", "LicenseRef-"+strings.Repeat("x", 70000), true, false)
	add("docref-70000", "DocumentRef-"+strings.Repeat("d", 70000)+":LicenseRef-a", true, false)
	add("unknown-id-70000", strings.Repeat("y", 70000), false, false)
	var g []string
	for i := 0; i < 9000; i++ {
		g = append(g, "("+u.ActPlain[i%len(u.ActPlain)]+")")
	}
	add("tight-groups-9000", strings.Join(g, "AND"), true, true)
	add("tight-groups-9000-or", strings.Join(g, "OR"), true, true)
	add("chain-700-and", strings.Join(ids(700, 0), " AND "), true, true)
	add("chain-700-or-case-tail", strings.Join(ids(700, 120), " OR "), true, true)
	add("chain-700-unknown-last", strings.Join(ids(700, 0), " AND ")+" AND NOT-A-LICENSE", false, true)
	add("spaces-70000", "MIT"+strings.Repeat(" ", 70000)+"AND"+strings.Repeat(" ", 70000)+"ISC", true, true)
	add("leading-spaces-70000", strings.Repeat(" ", 70000)+"MIT", true, false)
	var w []string
	for i := 0; i < 600; i++ {
		w = append(w, u.ActPlain[i%len(u.ActPlain)]+"+ WITH "+strings.ToUpper(u.Exceptions[i%len(u.Exceptions)]))
	}
	add("with-chain-600", strings.Join(w, " OR "), true, true)
	var l []string
	for i := 0; i < 600; i++ {
		l = append(l, u.SynthBase[i%len(u.SynthBase)]+"-or-later")
	}
	add("or-later-chain-600", strings.Join(l, " AND "), true, true)
	add("or-later-chain-600-unknown-last", strings.Join(l, " AND ")+" AND (FOO)", false, true)
	if xl {
		add("xl-nest-300000", nest(300000), true, false)
		add("xl-licenseref-1MiB", "LicenseRef-"+strings.Repeat("x", 1<<20), true, false)
		add("xl-chain-6000-and", strings.Join(ids(6000, 1000), " AND "), true, true)
		add("xl-chain-6000-or-unknown-last", strings.Join(ids(6000, 0), " OR ")+" OR nope", false, true)
		var gx []string
		for i := 0; i < 100000; i++ {
			gx = append(gx, "("+u.ActPlain[i%len(u.ActPlain)]+")")
		}
		add("xl-tight-groups-100000", strings.Join(gx, "OR"), true, true)
	}
	return out
}

// genPopulation draws n distinct random reference names (3..10 bytes over the id alphabet, both cases) and returns them as
// LicenseRef- terms: a large population of unrelated, individually unremarkable entries (digest-keyed indexes, sharding,
// sort-and-bisect and similar size-driven machinery must treat each of them as itself).
func genPopulation(c *Ctx, tag string, i, n int) []string {
	r := gen.NewRand(c.Seed, 0x909, uint64(len(tag)), uint64(tag[2]), uint64(i))
	const alpha = "abcdefghijklmnopqrstuvwxyzABCDEFGHIJKLMNOPQRSTUVWXYZ0123456789.-"
	seen := make(map[string]bool, n)
	out := make([]string, 0, n)
	for len(out) < n {
		b := make([]byte, 3+r.Intn(8))
		for j := range b {
			b[j] = alpha[r.Intn(len(alpha))]
		}
		if !seen[string(b)] {
			seen[string(b)] = true
			out = append(out, "LicenseRef-"+string(b))
		}
	}
	return out
}

// collisionPool is a fixed set of terms whose canonical strings are concatenations / prefixes of one another: keys built by
// joining term strings without a separator, prefix-based lookups and the like confuse them.
func collisionPool(u *gen.Universe) []gen.Term {
	return []gen.Term{
		{Ref: true, LicRef: "a"}, {Ref: true, LicRef: "b"}, {Ref: true, LicRef: "aLicenseRef-b"},
		{Ref: true, LicRef: "vendor"}, {ID: "MIT"}, {Ref: true, LicRef: "vendorMIT"},
		{Ref: true, LicRef: "x", DocRef: "d"}, {ID: "GPL-2.0"}, {Ref: true, LicRef: "xGPL-2.0", DocRef: "d"},
		{Ref: true, LicRef: "b2"}, {ID: "Apache-2.0"}, {Ref: true, LicRef: "b2Apache-2.0"},
		{Ref: true, LicRef: "ab"}, {Ref: true, LicRef: "a", DocRef: "d"}, {Ref: true, LicRef: "LicenseRef-a", DocRef: "d"}, {ID: "MIT-0"}, {ID: "MIT", Exc: u.Exceptions[0]}}
}
