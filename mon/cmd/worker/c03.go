package main

import (
	"encoding/json"
	"fmt"
	"os"
	"path/filepath"
	"regexp"
	"strings"

	"verif/mon/internal/ev"
	"verif/mon/internal/gen"
)

// C03 — no argument can make the library panic.
//
// Oracle: crash monitor. Every call is wrapped in recover(); the call is journalled before it is made so
// that an unrecoverable death of the child (stack overflow, out of memory) is attributed to it.

func init() { register("C03", runC03, replayC03) }

// CallCase is a single library call (used by C03 and by the generic crash replay).
type CallCase struct {
	Fn      string  `json:"fn"`
	Expr    ev.QS   `json:"expr,omitempty"`
	List    []ev.QS `json:"list"`
	NilList bool    `json:"nil_list,omitempty"`
	// Gen describes a generated extreme input instead of carrying its bytes.
	Gen *ExtremeSpec `json:"gen,omitempty"`
}

type ExtremeSpec struct {
	Family string `json:"family"`
	N      int    `json:"n"`
}

func panicKey(fn, p string) string {
	// normalise numbers in runtime error texts so that one defect keeps one key
	var b strings.Builder
	for i := 0; i < len(p); i++ {
		ch := p[i]
		if ch >= '0' && ch <= '9' {
			if b.Len() == 0 || b.String()[b.Len()-1] != '#' {
				b.WriteByte('#')
			}
			continue
		}
		b.WriteByte(ch)
	}
	s := b.String()
	if len(s) > 90 {
		s = s[:90]
	}
	return "panic:" + fn + ":" + s
}

func (c *Ctx) hostileCalls(s string, lastKind string) {
	v := c.Val([]string{s})
	if v.Panic != "" {
		c.Violation(panicKey("ValidateLicenses", v.Panic), "C03.panic", CallCase{Fn: "ValidateLicenses", List: []ev.QS{ev.QS(s)}}, "ValidateLicenses([%q]) panicked: %s", s, v.Panic)
	} else if v.OK {
		c.Inc("accepted")
		if lastKind != "" {
			c.Inc("accepted_last_" + lastKind)
		}
	} else {
		c.Inc("rejected")
		if lastKind != "" {
			c.Inc("rejected_last_" + lastKind)
		}
	}
	if lastKind != "" {
		c.Inc("last_" + lastKind)
	}
	if e := c.Ext(s); e.Panic != "" {
		c.Violation(panicKey("ExtractLicenses", e.Panic), "C03.panic", CallCase{Fn: "ExtractLicenses", Expr: ev.QS(s)}, "ExtractLicenses(%q) panicked: %s", s, e.Panic)
	}
	if r := c.Sat(s, []string{"MIT"}); r.Panic != "" {
		c.Violation(panicKey("Satisfies", r.Panic), "C03.panic", CallCase{Fn: "Satisfies", Expr: ev.QS(s), List: []ev.QS{"MIT"}}, "Satisfies(%q,[MIT]) panicked: %s", s, r.Panic)
	}
	if r := c.Sat("MIT", []string{s}); r.Panic != "" {
		c.Violation(panicKey("Satisfies", r.Panic), "C03.panic", CallCase{Fn: "Satisfies", Expr: "MIT", List: []ev.QS{ev.QS(s)}}, "Satisfies(MIT,[%q]) panicked: %s", s, r.Panic)
	}
	if r := c.Sat(s, []string{s, "ISC"}); r.Panic != "" {
		c.Violation(panicKey("Satisfies", r.Panic), "C03.panic", CallCase{Fn: "Satisfies", Expr: ev.QS(s), List: []ev.QS{ev.QS(s), "ISC"}}, "Satisfies(s,[s,ISC]) with s=%q panicked: %s", s, r.Panic)
	}
	c.Distinct(gen.HashStr(s))
}

func doCall(c *Ctx, cc CallCase) {
	list := ev.Strs(cc.List)
	if cc.NilList {
		list = nil
	}
	expr := string(cc.Expr)
	if cc.Gen != nil {
		expr = buildExtreme(cc.Gen.Family, cc.Gen.N)
		if cc.Fn == "ValidateLicenses" {
			list = []string{expr}
		}
		if cc.Fn == "Satisfies" && len(list) == 0 {
			list = []string{"MIT"}
		}
	}
	switch cc.Fn {
	case "Satisfies":
		if r := c.Sat(expr, list); r.Panic != "" {
			c.Violation(panicKey(cc.Fn, r.Panic), "C03.panic", cc, "Satisfies panicked: %s", r.Panic)
		}
	case "ExtractLicenses":
		if r := c.Ext(expr); r.Panic != "" {
			c.Violation(panicKey(cc.Fn, r.Panic), "C03.panic", cc, "ExtractLicenses panicked: %s", r.Panic)
		}
	case "ValidateLicenses":
		if r := c.Val(list); r.Panic != "" {
			c.Violation(panicKey(cc.Fn, r.Panic), "C03.panic", cc, "ValidateLicenses panicked: %s", r.Panic)
		}
	}
}

func replayC03(c *Ctx, rule string, raw json.RawMessage) {
	var cc CallCase
	if err := json.Unmarshal(raw, &cc); err != nil {
		fmt.Println("bad case:", err)
		return
	}
	doCall(c, cc)
}

// replayCrash re-executes a call recorded by the orchestrator from a dead child's journal.
func replayCrash(c *Ctx, raw json.RawMessage) {
	var cr struct {
		Call struct {
			Fn   string  `json:"fn"`
			Args []ev.QS `json:"args"`
		} `json:"call"`
		Pending *CallCase `json:"pending"`
	}
	if err := json.Unmarshal(raw, &cr); err != nil {
		fmt.Println("bad case:", err)
		return
	}
	if cr.Pending != nil {
		doCall(c, *cr.Pending)
		return
	}
	args := ev.Strs(cr.Call.Args)
	cc := CallCase{Fn: cr.Call.Fn}
	switch cr.Call.Fn {
	case "Satisfies":
		if len(args) > 0 {
			cc.Expr = ev.QS(args[0])
			cc.List = ev.QSs(args[1:])
		}
	case "ExtractLicenses":
		if len(args) > 0 {
			cc.Expr = ev.QS(args[0])
		}
	case "ValidateLicenses":
		cc.List = ev.QSs(args)
	}
	doCall(c, cc)
}

// Pending announces a risky call in a side file, so that the orchestrator can name the violation
// with a stable key if the child dies in it.
func (c *Ctx) Pending(key string, cc CallCase, phase string) {
	dir := os.Getenv("VERIF_RUNDIR")
	if dir == "" {
		return
	}
	b, _ := json.Marshal(map[string]any{"key": key, "pending": cc})
	os.WriteFile(filepath.Join(dir, fmt.Sprintf("pending-%s-%d", phase, c.Shard)), b, 0o644)
}

func (c *Ctx) ClearPending(phase string) {
	if dir := os.Getenv("VERIF_RUNDIR"); dir != "" {
		os.Remove(filepath.Join(dir, fmt.Sprintf("pending-%s-%d", phase, c.Shard)))
	}
}

func runC03(c *Ctx, phase string) {
	switch phase {
	case "extreme":
		runC03Extreme(c)
	default:
		runC03Corpus(c, phase)
	}
}

func runC03Corpus(c *Ctx, phase string) {
	u := c.U
	if phase == "race-corpus" {
		// the -race / checkptr build repeats the quick-sized corpus (the detector costs ~10x)
		defer func(t string) { c.Tier = t }(c.Tier)
		c.Tier = "quick"
	}
	if phase == "corpus" {
		c.Meta("hostile inputs to all three functions (as expression, as allowed entry, as element of the ValidateLicenses slice): every byte prefix, every single-token deletion and every single-token "+
			"insertion (each of the 20 alphabet kinds at each position) of generated valid expressions; all token sequences up to length L over the C05 alphabet in loose and tight spacing; random byte strings "+
			"(NUL, tab/newline, non-ASCII, invalid UTF-8, grammar fragments); valid single-term pairs of every listed id and spelling and valid compound expressions against related allowed lists (matching and expansion code); nil/empty/large slices; extremes (10^6-byte id, 10^6 spaces, long chains, nesting ladders). distinct = distinct input string; "+
			"every input is non-trivial (each is a different hostile string)",
			false, fmt.Sprintf("valid expressions mutated=%d; exhaustive token sequences to length %d; random byte strings=%d; nesting ladder to depth %s", c.Pick(400, 6000), c.Pick(3, 4), c.Pick(20000, 500000), map[bool]string{false: "2e4", true: "1e7"}[c.Thorough()]),
			"a panic is a violation by definition: no reference needed", "an unrecoverable death of a child is attributed to the call journalled as in flight")
		c.Floor("accepted", 2000)
		c.Floor("rejected", 10000)
		for k := 0; k < gen.NumKinds; k++ {
			c.Floor("last_"+gen.KindNames[k], 20)
		}
		c.Floor("slice_cases", 10)
		c.Floor("valid_term_pairs", 20000)
		c.Floor("valid_trees", 1000)
		c.Floor("long_allowed_lists", 1000)
		c.Floor("dictionary_pairs", 500)
		c.Floor("near_miss_ids", 5000)
	}
	// (1) mutations of valid expressions
	nValid := c.Pick(400, 6000)
	for i := 0; i < nValid; i++ {
		if !c.Mine(i) {
			continue
		}
		tc := genRandomTree(c, "C03", i, 64)
		r := gen.NewRand(c.Seed, 0xC03, uint64(i))
		kinds, lex := u.ASTTokens(tc.Tree, tc.Terms, r)
		if len(kinds) > 40 {
			continue
		}
		full := gen.RenderTokens(kinds, lex, r.Chance(1, 3), r)
		c.hostileCalls(full, gen.KindNames[kinds[len(kinds)-1]])
		// every byte prefix
		for p := 0; p < len(full); p++ {
			c.hostileCalls(full[:p], "")
		}
		// every token prefix (the truncation points where the cursor is dereferenced)
		for p := 1; p < len(kinds); p++ {
			c.hostileCalls(gen.RenderTokens(kinds[:p], lex[:p], false, nil), gen.KindNames[kinds[p-1]])
		}
		// single-token deletions
		for d := 0; d < len(kinds); d++ {
			k2 := append(append([]int{}, kinds[:d]...), kinds[d+1:]...)
			l2 := append(append([]string{}, lex[:d]...), lex[d+1:]...)
			if len(k2) == 0 {
				continue
			}
			c.hostileCalls(gen.RenderTokens(k2, l2, r.Chance(1, 3), nil), gen.KindNames[k2[len(k2)-1]])
		}
		// single-token insertions: each alphabet kind at each position
		for p := 0; p <= len(kinds); p++ {
			for k := 0; k < gen.NumKinds; k++ {
				k2 := append(append(append([]int{}, kinds[:p]...), k), kinds[p:]...)
				l2 := append(append(append([]string{}, lex[:p]...), u.Lexeme(k, r)), lex[p:]...)
				c.hostileCalls(gen.RenderTokens(k2, l2, r.Chance(1, 3), nil), gen.KindNames[k2[len(k2)-1]])
			}
		}
		if c.WantSample() {
			c.Sample(map[string]any{"valid_expression": full, "derived": "all byte prefixes, token prefixes, single-token deletions, 20 kinds inserted at each position", "calls_per_string": 5})
		}
	}
	// (2) all token sequences up to length L
	L := c.Pick(3, 4)
	total := 0
	for n := 1; n <= L; n++ {
		cnt := 1
		for i := 0; i < n; i++ {
			cnt *= gen.NumKinds
		}
		for code := 0; code < cnt; code++ {
			total++
			if !c.Mine(total) {
				continue
			}
			kinds := make([]int, n)
			for i, v := 0, code; i < n; i++ {
				kinds[i] = v % gen.NumKinds
				v /= gen.NumKinds
			}
			r := gen.NewRand(c.Seed, 0xC035, uint64(n), uint64(code))
			lex := make([]string, n)
			for i, k := range kinds {
				lex[i] = u.Lexeme(k, r)
			}
			c.hostileCalls(gen.RenderTokens(kinds, lex, false, nil), gen.KindNames[kinds[n-1]])
			c.hostileCalls(gen.RenderTokens(kinds, lex, true, nil), gen.KindNames[kinds[n-1]])
		}
	}
	// (3) random byte strings
	nRand := c.Pick(20000, 500000)
	frags := []string{"MIT", "AND", "OR", "WITH", "(", ")", "+", ":", " ", "  ", "LicenseRef-", "DocumentRef-", "GPL-2.0", "-or-later", "-only", "Apache-2.0", "Classpath-exception-2.0",
		"\x00", "\t", "\n", "\r", "\xff", "\xc3\x28", "é", "日本", "\U0001F600", "-", ".", "--", "..", "+-", "a", "0", "AND AND", "OR(", ")(", "((", "))", "WITH WITH", "::", "+ +", "++"}
	for i := 0; i < nRand; i++ {
		if !c.Mine(i) {
			continue
		}
		r := gen.NewRand(c.Seed, 0xC036, uint64(i))
		var b strings.Builder
		n := 1 + r.Intn(12)
		for j := 0; j < n; j++ {
			switch r.Intn(6) {
			case 0: // raw bytes
				m := 1 + r.Intn(6)
				for q := 0; q < m; q++ {
					b.WriteByte(byte(r.Intn(256)))
				}
			case 1:
				b.WriteString(r.Pick(u.AllLicense))
			default:
				b.WriteString(r.Pick(frags))
			}
			if r.Chance(1, 2) {
				b.WriteByte(' ')
			}
		}
		c.hostileCalls(b.String(), "")
		if c.WantSample() && i%977 == 0 {
			c.Sample(map[string]any{"random_bytes": ev.QS(b.String())})
		}
	}
	// (5) valid inputs through the matching and expansion code: a panic there is as much a violation as one in the parser
	{
		var all []gen.Term
		for _, id := range u.AllLicense {
			for _, t := range spellVariants(u, id, false) {
				all = append(all, t)
				t.Exc = u.Exceptions[len(all)%len(u.Exceptions)]
				all = append(all, t)
			}
		}
		all = append(all, refTerms()...)
		for i, t := range all {
			if !c.Mine(i) {
				continue
			}
			r := gen.NewRand(c.Seed, 0xC037, uint64(i))
			tx := t.Text()
			for p := 0; p < 10; p++ {
				var o gen.Term
				switch p % 3 {
				case 0:
					o = all[r.Intn(len(all))]
				case 1:
					o = relatedTerm(u, r, t)
				default:
					o = gen.Term{ID: r.Pick(u.InTable)}
					if r.Chance(1, 2) && u.SpellOK(o.ID, gen.SpPlus) {
						o.Spell = gen.SpPlus
					}
				}
				ox := o.Text()
				for _, pair := range [][2]string{{tx, ox}, {ox, tx}} {
					if res := c.Sat(pair[0], []string{pair[1]}); res.Panic != "" {
						c.Violation(panicKey("Satisfies", res.Panic), "C03.panic", CallCase{Fn: "Satisfies", Expr: ev.QS(pair[0]), List: []ev.QS{ev.QS(pair[1])}}, "Satisfies(%q,[%q]) panicked: %s", pair[0], pair[1], res.Panic)
					}
				}
				c.Inc("valid_term_pairs")
			}
		}
		nTrees := c.Pick(1500, 20000)
		for i := 0; i < nTrees; i++ {
			if !c.Mine(i) {
				continue
			}
			tc := genRandomTree(c, "C03v", i, 512)
			r := gen.NewRand(c.Seed, 0xC038, uint64(i))
			text := string(tc.Text)
			var allowed []string
			for _, t := range tc.Terms {
				if r.Chance(1, 2) {
					allowed = append(allowed, t.Text())
				}
				if r.Chance(1, 3) {
					allowed = append(allowed, relatedTerm(u, r, t).Text())
				}
			}
			allowed = append(allowed, u.RandomTerm(r).Text())
			doCall(c, CallCase{Fn: "Satisfies", Expr: ev.QS(text), List: ev.QSs(allowed)})
			doCall(c, CallCase{Fn: "ExtractLicenses", Expr: ev.QS(text)})
			c.Inc("valid_trees")
			c.Distinct(gen.HashStr("tree", text))
		}
	}
	// (6) long allowed lists (code paths that switch strategy above a size threshold: indexes, binary search, maps)
	{
		nLong := c.Pick(1200, 12000)
		edge := []string{"0BSD", "zlib-acknowledgement", "ZPL-2.1", "Zlib", "AAL", "xpp", "LicenseRef-zzzz", "LicenseRef-0", "DocumentRef-zz:LicenseRef-zz", "wxWindows", "GPL-3.0-or-later", "MIT+", "X11 WITH x11vnc-openssl-exception"}
		for i := 0; i < nLong; i++ {
			if !c.Mine(i) {
				continue
			}
			r := gen.NewRand(c.Seed, 0xC039, uint64(i))
			n := 9 + r.Intn(40)
			if r.Chance(1, 3) {
				n = 30 + r.Intn(120)
			}
			allowed := make([]string, 0, n)
			for len(allowed) < n {
				t := u.RandomTerm(r)
				if r.Chance(1, 2) {
					t = gen.Term{ID: r.Pick(u.Active)}
				}
				allowed = append(allowed, t.Text())
			}
			var expr string
			switch r.Intn(4) {
			case 0:
				expr = r.Pick(edge)
			case 1:
				expr = allowed[r.Intn(len(allowed))]
			case 2:
				expr = u.RandomTerm(r).Text()
			default:
				expr = string(genRandomTree(c, "C03L", i, 128).Text)
			}
			doCall(c, CallCase{Fn: "Satisfies", Expr: ev.QS(expr), List: ev.QSs(allowed)})
			doCall(c, CallCase{Fn: "ValidateLicenses", List: ev.QSs(allowed)})
			c.Inc("long_allowed_lists")
			c.Max("longest_allowed_list", int64(n))
		}
	}
	// (8) near misses of every listed id (what people type: GPLv2, Apache2.0, BSD_3_Clause, a dropped or doubled character ...):
	// unknown ids that resemble a listed one, which is where "did you mean" style code paths live
	{
		ids := append(append([]string{}, u.AllLicense...), u.Exceptions...)
		for i, id := range ids {
			if !c.Mine(i) {
				continue
			}
			r := gen.NewRand(c.Seed, 0xC03A, uint64(i))
			var near []string
			if st, ver, suf, ok := gen.Stem(id); ok {
				tail := ""
				if suf != "" {
					tail = "-" + suf
				}
				near = append(near, st+"v"+ver+tail, st+"-v"+ver+tail, st+ver+tail, st+"-V"+ver+tail, st+" "+ver+tail, st+"_"+ver+tail, strings.ToLower(st)+"v"+ver, st+"-"+ver+".0"+tail, st+"-"+strings.TrimSuffix(ver, ".0")+tail)
			}
			near = append(near, strings.ReplaceAll(id, "-", "_"), strings.ReplaceAll(id, "-", ""), strings.ReplaceAll(id, "-", " "), id+"-", id+".", "-"+id, id+id, id+"-"+id)
			for k := 0; k < 3 && len(id) > 2; k++ {
				p := r.Intn(len(id))
				near = append(near, id[:p]+id[p+1:], id[:p]+id[p:p+1]+id[p:])
				if p+1 < len(id) {
					near = append(near, id[:p]+id[p+1:p+2]+id[p:p+1]+id[p+2:])
				}
			}
			for _, s := range near {
				c.hostileCalls(s, "")
				c.Inc("near_miss_ids")
			}
		}
	}
	// (7) a dictionary taken from the string literals of the library's own source: keywords, prefixes and suffixes the code
	// compares against are the vocabulary of its grammar, including vocabulary the harness does not know about
	if c.Shard == 2%c.NShards {
		lits := sourceLiterals()
		c.Count("source_literals", int64(len(lits)))
		for _, lit := range lits {
			var forms []string
			switch {
			case strings.HasSuffix(lit, "-") && len(lit) > 2: // prefix-like: LicenseRef-, DocumentRef-, ...
				for _, nm := range []string{"x", "X", "a.b-1"} {
					forms = append(forms, lit+nm, "DocumentRef-d:"+lit+nm, lit+"d:"+lit+nm, "MIT WITH "+lit+nm, "MIT WITH DocumentRef-d:"+lit+nm,
						"("+lit+nm+")", lit+nm+"+", lit+nm+" WITH Classpath-exception-2.0", "MIT OR "+lit+nm, lit+nm+" AND DocumentRef-d:"+lit+nm)
				}
				forms = append(forms, lit, "MIT WITH "+lit, "DocumentRef-d:"+lit, lit+":"+lit)
			case strings.HasPrefix(lit, "-"): // suffix-like: -only, -or-later, ...
				forms = append(forms, "MIT"+lit, "GPL-2.0"+lit, "GPL-2.0"+lit+lit, "MIT"+lit+"+", "Classpath-exception-2.0"+lit, "MIT WITH Classpath-exception-2.0"+lit, "LicenseRef-x"+lit, lit, "FOO"+lit)
			default: // operator-like or other words
				forms = append(forms, lit, "MIT "+lit+" ISC", "MIT "+lit, lit+" MIT", "MIT"+lit+"ISC", "(MIT "+lit+" ISC)", "MIT "+lit+" "+lit+" ISC", "MIT "+strings.ToLower(lit)+" ISC", "MIT WITH "+lit)
			}
			for _, f := range forms {
				c.hostileCalls(f, "")
			}
			for _, f1 := range forms {
				for _, f2 := range forms {
					if res := c.Sat(f1, []string{f2}); res.Panic != "" {
						c.Violation(panicKey("Satisfies", res.Panic), "C03.panic", CallCase{Fn: "Satisfies", Expr: ev.QS(f1), List: []ev.QS{ev.QS(f2)}}, "Satisfies(%q,[%q]) panicked: %s", f1, f2, res.Panic)
					}
					c.Inc("dictionary_pairs")
				}
			}
		}
	}
	// (4) slices
	if c.Shard == 0 {
		big := make([]string, 10000)
		for i := range big {
			switch i % 5 {
			case 0:
				big[i] = "MIT"
			case 1:
				big[i] = ""
			case 2:
				big[i] = "   "
			case 3:
				big[i] = "\xff\xfe"
			default:
				big[i] = "MIT AND (ISC OR"
			}
		}
		cases := []CallCase{
			{Fn: "ValidateLicenses", NilList: true}, {Fn: "ValidateLicenses", List: []ev.QS{}},
			{Fn: "ValidateLicenses", List: []ev.QS{""}}, {Fn: "ValidateLicenses", List: []ev.QS{" ", "  ", "\t"}},
			{Fn: "ValidateLicenses", List: ev.QSs(big)},
			{Fn: "Satisfies", Expr: "MIT", NilList: true}, {Fn: "Satisfies", Expr: "MIT", List: []ev.QS{}},
			{Fn: "Satisfies", Expr: "", NilList: true}, {Fn: "Satisfies", Expr: "", List: []ev.QS{""}},
			{Fn: "Satisfies", Expr: "MIT", List: []ev.QS{""}}, {Fn: "Satisfies", Expr: "MIT", List: []ev.QS{" "}},
			{Fn: "Satisfies", Expr: "MIT", List: ev.QSs(big)}, {Fn: "Satisfies", Expr: " ", List: []ev.QS{"MIT"}},
			{Fn: "Satisfies", Expr: "MIT", List: []ev.QS{"MIT", "\xff"}},
			{Fn: "ExtractLicenses", Expr: ""}, {Fn: "ExtractLicenses", Expr: " "}, {Fn: "ExtractLicenses", Expr: "\x00"},
			{Fn: "ExtractLicenses", Expr: "()"}, {Fn: "ExtractLicenses", Expr: "( )"}, {Fn: "ExtractLicenses", Expr: "(())"},
		}
		for _, cc := range cases {
			doCall(c, cc)
			c.Inc("slice_cases")
		}
	}
}

// sourceLiterals returns short string literals found in the non-test Go files of the library under check.
func sourceLiterals() []string {
	dir := filepath.Join(repoPath(), "spdxexp")
	files, _ := filepath.Glob(filepath.Join(dir, "*.go"))
	seen := map[string]bool{}
	var out []string
	re := regexp.MustCompile("\"([A-Za-z:+()-][A-Za-z0-9:+() -]{0,22})\"")
	for _, f := range files {
		if strings.HasSuffix(f, "_test.go") {
			continue
		}
		b, err := os.ReadFile(f)
		if err != nil {
			continue
		}
		for _, m := range re.FindAllStringSubmatch(string(b), -1) {
			l := m[1]
			if strings.ContainsAny(l, " ") || seen[l] || len(out) >= 60 {
				continue
			}
			seen[l] = true
			out = append(out, l)
		}
	}
	return out
}

// buildExtreme generates one extreme input.
func buildExtreme(family string, n int) string {
	switch family {
	case "long_id":
		return strings.Repeat("a", n)
	case "long_id_suffix":
		return strings.Repeat("a", n) + "-or-later"
	case "spaces":
		return strings.Repeat(" ", n) + "MIT" + strings.Repeat(" ", n)
	case "and_chain":
		return strings.Repeat("MIT AND ", n) + "ISC"
	case "or_chain":
		return strings.Repeat("MIT OR ", n) + "ISC"
	case "later_chain":
		return strings.Repeat("Apache-2.0-or-later AND ", n) + "MIT"
	case "plus_chain":
		return "MIT" + strings.Repeat("+", n)
	case "with_chain":
		return "GPL-2.0-only" + strings.Repeat(" WITH Classpath-exception-2.0", n)
	case "paren_nest":
		return strings.Repeat("(", n) + "MIT" + strings.Repeat(")", n)
	case "paren_open":
		return strings.Repeat("(", n)
	case "paren_close":
		return "MIT" + strings.Repeat(")", n)
	case "paren_nest_or":
		return strings.Repeat("(MIT OR ", n) + "ISC" + strings.Repeat(")", n)
	case "paren_nest_and":
		return strings.Repeat("(MIT AND ", n) + "ISC" + strings.Repeat(")", n)
	case "ref_chain":
		return strings.Repeat("DocumentRef-a:LicenseRef-b OR ", n) + "LicenseRef-c"
	case "colon_chain":
		return "DocumentRef-a" + strings.Repeat(":", n) + "LicenseRef-b"
	case "long_ref":
		return "LicenseRef-" + strings.Repeat("x", n)
	case "unicode":
		return strings.Repeat("é", n)
	}
	return "MIT"
}

type extremeLadder struct {
	family string
	quick  []int
	thor   []int
	// deepKey: when set, a fatal stack exhaustion at n >= deepFrom is reported under this key
	deepKey  string
	deepFrom int
}

var extremeLadders = []extremeLadder{
	{family: "long_id", quick: []int{1000, 100000}, thor: []int{1000, 100000, 1000000}},
	{family: "long_id_suffix", quick: []int{1000, 100000}, thor: []int{1000, 100000, 1000000}},
	{family: "spaces", quick: []int{1000, 100000}, thor: []int{1000, 1000000}},
	{family: "and_chain", quick: []int{100, 2000}, thor: []int{100, 20000}},
	{family: "or_chain", quick: []int{100, 2000}, thor: []int{100, 20000}},
	{family: "later_chain", quick: []int{100, 1000}, thor: []int{100, 5000}},
	{family: "plus_chain", quick: []int{2, 1000}, thor: []int{2, 100000}},
	{family: "with_chain", quick: []int{2, 1000}, thor: []int{2, 100000}},
	{family: "paren_open", quick: []int{1, 20000}, thor: []int{1, 1000000}},
	{family: "paren_close", quick: []int{1, 20000}, thor: []int{1, 1000000}},
	{family: "paren_nest_or", quick: []int{10, 1000}, thor: []int{10, 5000}},
	{family: "paren_nest_and", quick: []int{10, 1000}, thor: []int{10, 5000}},
	{family: "ref_chain", quick: []int{100, 2000}, thor: []int{100, 20000}},
	{family: "colon_chain", quick: []int{2, 1000}, thor: []int{2, 100000}},
	{family: "long_ref", quick: []int{1000, 100000}, thor: []int{1000, 1000000}},
	{family: "unicode", quick: []int{10, 10000}, thor: []int{10, 100000}},
	{family: "paren_nest", quick: []int{10, 100, 1000, 20000}, thor: []int{10, 1000, 100000, 1000000}},
	// the rungs beyond 10^6 run last, one per child, because they are expected to kill it (known finding D11)
	{family: "paren_nest", thor: []int{3000000}, deepKey: "stack-exhaustion:paren-depth>=1e6", deepFrom: 1000000},
	{family: "paren_nest", thor: []int{10000000}, deepKey: "stack-exhaustion:paren-depth>=1e6", deepFrom: 1000000},
}

func runC03Extreme(c *Ctx) {
	for li, l := range extremeLadders {
		if li%c.NShards != c.Shard {
			continue
		}
		rungs := l.quick
		if c.Thorough() {
			rungs = l.thor
		}
		for _, n := range rungs {
			for _, fn := range []string{"ValidateLicenses", "ExtractLicenses", "Satisfies"} {
				cc := CallCase{Fn: fn, Gen: &ExtremeSpec{Family: l.family, N: n}}
				key := fmt.Sprintf("fatal-extreme:%s:%s:n=%d", fn, l.family, n)
				if l.deepKey != "" && n >= l.deepFrom {
					key = l.deepKey
				}
				c.Pending(key, cc, "extreme")
				doCall(c, cc)
				c.ClearPending("extreme")
				c.Inc("extreme_calls")
				c.Max("extreme_n_"+l.family, int64(n))
				c.Distinct(gen.HashStr(fn, l.family, fmt.Sprint(n)))
			}
			// the same extreme text as an allowed entry
			s := buildExtreme(l.family, n)
			if len(s) <= 4<<20 {
				if r := c.Sat("MIT", []string{s}); r.Panic != "" {
					c.Violation(panicKey("Satisfies", r.Panic), "C03.panic", CallCase{Fn: "Satisfies", Expr: "MIT", Gen: nil, List: []ev.QS{ev.QS(trunc(s, 2000))}}, "Satisfies(MIT,[extreme %s n=%d]) panicked: %s", l.family, n, r.Panic)
				}
			}
		}
	}
}

func trunc(s string, n int) string {
	if len(s) > n {
		return s[:n]
	}
	return s
}
