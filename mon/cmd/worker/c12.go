package main

import (
	"encoding/json"
	"fmt"
	"os"
	"path/filepath"
	"strings"

	"verif/mon/internal/gen"
)

// C12 — the shipped license tables are exactly what the SPDX source data says.
//
// Oracle: an independent decoding of cmd/licenses.json and cmd/exceptions.json (own structs) compared
// as ordered lists with the exported tables; set-level invariants; behaviour of every id. The
// generator re-run (byte comparison of the generated files) is done by the orchestrator.

func init() { register("C12", runC12, replayC12) }

type C12Case struct {
	Kind string `json:"kind"` // json | sets | behaviour
	ID   string `json:"id,omitempty"`
}

func repoPath() string {
	if v := os.Getenv("VERIF_REPO"); v != "" {
		return v
	}
	return "/repo"
}

func judgeJSON(c *Ctx) {
	u := c.U
	var lic struct {
		Licenses []struct {
			ID  string `json:"licenseId"`
			Dep bool   `json:"isDeprecatedLicenseId"`
		} `json:"licenses"`
	}
	var exc struct {
		Exceptions []struct {
			ID  string `json:"licenseExceptionId"`
			Dep bool   `json:"isDeprecatedLicenseId"`
		} `json:"exceptions"`
	}
	cs := C12Case{Kind: "json"}
	read := func(name string, v any) bool {
		b, err := os.ReadFile(filepath.Join(repoPath(), "cmd", name))
		if err != nil {
			c.Violation("json-unreadable:"+name, "C12.json", cs, "cannot read the SPDX source data %s: %v", name, err)
			return false
		}
		if err := json.Unmarshal(b, v); err != nil {
			c.Violation("json-undecodable:"+name, "C12.json", cs, "cannot decode %s: %v", name, err)
			return false
		}
		return true
	}
	if !read("licenses.json", &lic) || !read("exceptions.json", &exc) {
		return
	}
	var wantAct, wantDep, wantExc []string
	for _, l := range lic.Licenses {
		if l.Dep {
			wantDep = append(wantDep, l.ID)
		} else {
			wantAct = append(wantAct, l.ID)
		}
	}
	for _, e := range exc.Exceptions {
		if !e.Dep {
			wantExc = append(wantExc, e.ID)
		}
	}
	cmp := func(name string, got, want []string) {
		c.Count("json_ids_compared", int64(len(want)))
		gs, ws := map[string]bool{}, map[string]bool{}
		for _, x := range got {
			gs[x] = true
		}
		for _, x := range want {
			ws[x] = true
		}
		for _, x := range want {
			if !gs[x] {
				c.Violation("table-missing:"+name+":"+x, "C12.json", cs, "%q is in the SPDX JSON (%s) but not in the shipped %s table", x, name, name)
			}
		}
		for _, x := range got {
			if !ws[x] {
				c.Violation("table-extra:"+name+":"+x, "C12.json", cs, "%q is in the shipped %s table but the SPDX JSON does not put it there", x, name)
			}
		}
		if len(got) == len(want) {
			for i := range got {
				if got[i] != want[i] {
					c.Violation("table-order:"+name, "C12.json", cs, "%s table differs from the JSON order at index %d: %q vs %q (the generator emits JSON order)", name, i, got[i], want[i])
					break
				}
			}
		} else {
			c.Violation("table-length:"+name, "C12.json", cs, "%s table has %d entries, the JSON yields %d (duplicates?)", name, len(got), len(want))
		}
	}
	cmp("active", u.Active, wantAct)
	cmp("deprecated", u.Deprecated, wantDep)
	cmp("exceptions", u.Exceptions, wantExc)
}

func judgeSets(c *Ctx) {
	u := c.U
	cs := C12Case{Kind: "sets"}
	where := map[string]string{}
	fold := map[string]string{}
	for _, l := range []struct {
		name string
		ids  []string
	}{{"active", u.Active}, {"deprecated", u.Deprecated}, {"exceptions", u.Exceptions}} {
		for _, id := range l.ids {
			c.Inc("set_ids_checked")
			if w, ok := where[id]; ok {
				c.Violation("not-disjoint:"+id, "C12.sets", cs, "%q is on the %s list and on the %s list", id, w, l.name)
			}
			where[id] = l.name
			f := strings.ToLower(id)
			if prev, ok := fold[f]; ok && prev != id {
				c.Violation("fold-collision:"+prev+"~"+id, "C12.sets", cs, "%q and %q are equal up to letter case: the case-insensitive first-match lookup cannot tell them apart", prev, id)
			}
			fold[f] = id
			if id == "" || strings.ContainsAny(id, " \t()") {
				c.Violation("unreadable-id:"+id, "C12.sets", cs, "listed id %q contains characters the tokeniser cannot read as part of an id", id)
			}
		}
	}
}

func judgeIDBehaviour(c *Ctx, id string, isExc bool) {
	u := c.U
	cs := C12Case{Kind: "behaviour", ID: id}
	if isExc {
		c.Inc("exception_ids_checked")
		if s := "MIT WITH " + id; !c.Valid(s) {
			c.Violation("exception-rejected:"+id, "C12.behaviour", cs, "%q is rejected although %q is a listed exception", s, id)
		} else if x := c.Ext(s); !x.Clean() || len(x.List) != 1 || x.List[0] != s {
			c.Violation("exception-extract:"+id, "C12.behaviour", cs, "ExtractLicenses(%q) = %s, want [%q]", s, x, s)
		}
		for _, s := range []string{id, id + " WITH " + id, "MIT AND " + id, id + " AND MIT", "MIT WITH " + id + "+", "(" + id + ")", "MIT OR " + id, id + "+"} {
			if c.Valid(s) {
				c.Violation("exception-accepted-outside-with:"+id, "C12.behaviour", cs, "%q is accepted: an exception id is valid after WITH and nowhere else", s)
			}
		}
		return
	}
	c.Inc("license_ids_checked")
	if !c.Valid(id) {
		c.Violation("id-rejected:"+id, "C12.behaviour", cs, "listed license id %q is rejected as a one-term expression", id)
		return
	}
	x := c.Ext(id)
	want := id
	if strings.Contains(id, "+") { // deprecated "GPL-2.0+" is reported through the + fold
		want = strings.Replace(id, "+", "-or-later+", 1)
	}
	ok := x.Clean() && len(x.List) == 1 && (x.List[0] == want || (strings.HasSuffix(id, "-or-later") && x.List[0] == id+"+"))
	if !ok {
		c.Violation("id-extract:"+id, "C12.behaviour", cs, "ExtractLicenses(%q) = %s, want [%q]", id, x, want)
	}
	if r := c.Sat(id, []string{id}); !r.Clean() || !r.OK {
		c.Violation("id-self:"+id, "C12.behaviour", cs, "Satisfies(%q,[%q]) = %s", id, id, r)
	}
	// a license id is not an exception
	if s := "MIT WITH " + id; c.Valid(s) && !u.ExcSet[id] {
		c.Violation("license-accepted-as-exception:"+id, "C12.behaviour", cs, "%q is accepted although %q is not an exception id", s, id)
	}
	{
		for _, v := range []string{strings.ToLower(id), strings.ToUpper(id)} {
			if !c.Valid(v) {
				c.Violation("id-rejected:"+id, "C12.behaviour", cs, "case variant %q of listed id %q is rejected", v, id)
			}
			if xv := c.Ext(v); !xv.Clean() || !eqStrs(xv.List, x.List) {
				c.Violation("id-extract:"+id, "C12.behaviour", cs, "ExtractLicenses(%q) = %s, want %q", v, xv, x.List)
			}
		}
	}
	c.Distinct(gen.HashStr(id))
}

func replayC12(c *Ctx, rule string, raw json.RawMessage) {
	var cs C12Case
	if err := json.Unmarshal(raw, &cs); err != nil {
		fmt.Println("bad case:", err)
		return
	}
	switch cs.Kind {
	case "alias":
		before := tablesFingerprint()
		clobberTables()
		if tablesFingerprint() != before {
			c.Violation("table-aliased", "C12.alias", cs, "replayed: fresh tables differ after a caller edited the returned slices")
		}
	case "json":
		judgeJSON(c)
	case "sets":
		judgeSets(c)
	case "behaviour":
		judgeIDBehaviour(c, cs.ID, c.U.ExcSet[cs.ID])
	}
}

func runC12(c *Ctx, phase string) {
	u := c.U
	c.Meta("every id of cmd/licenses.json and cmd/exceptions.json (decoded by the harness with its own structs) against GetLicenses()/GetDeprecated()/GetExceptions() as ordered lists; pairwise disjointness and case-fold uniqueness of the three lists; "+
		"every license id executed through ValidateLicenses / ExtractLicenses / Satisfies alone, every exception id accepted after WITH and rejected alone, as 'e WITH e', in 'MIT AND e', after '+', in parentheses; "+
		"and (orchestrator) the real generator re-run on a scratch copy with byte comparison of the three generated files, then re-run on four perturbed copies of the JSON (false flags omitted, order reversed, new active/deprecated/exception entries, minimal entries after deprecated ones) with the emitted ids compared against the harness' own per-entry decoding. distinct = listed id; every id is a non-trivial case",
		true, fmt.Sprintf("active=%d deprecated=%d exceptions=%d", len(u.Active), len(u.Deprecated), len(u.Exceptions)),
		"the JSON files in /repo/cmd are the source of truth (the property's wording); their agreement with upstream SPDX is out of scope (no network)")
	c.Floor("json_ids_compared", int64(len(u.Active)+len(u.Deprecated)+len(u.Exceptions))*9/10)
	c.Floor("license_ids_checked", int64(len(u.AllLicense)))
	c.Floor("exception_ids_checked", int64(len(u.Exceptions)))
	c.Floor("set_ids_checked", int64(len(u.AllLicense)+len(u.Exceptions)))
	c.Floor("generator_files_compared", 3)
	c.Floor("generator_variants_run", 5)
	c.Floor("refreshed_library_runs", 1)
	c.Floor("tables_refetched_after_client_edit", 1)
	judgeJSON(c)
	judgeSets(c)
	for _, id := range u.AllLicense {
		judgeIDBehaviour(c, id, false)
	}
	for _, e := range u.Exceptions {
		judgeIDBehaviour(c, e, true)
		c.Distinct(gen.HashStr("exc", e))
	}
	// last: a client that edits the slices it was handed (filter-in-place idiom) must not change what the library ships
	before := tablesFingerprint()
	clobberTables()
	c.Inc("tables_refetched_after_client_edit")
	if after := tablesFingerprint(); after != before {
		c.Violation("table-aliased", "C12.alias", C12Case{Kind: "alias"}, "after a caller overwrote the slices returned by GetLicenses/GetDeprecated/GetExceptions/LicenseRanges, fresh calls return different tables (%d bytes of fingerprint differ in length or content): the shipped tables are no longer what the SPDX data says", len(after)-len(before))
	}
	c.Sample(map[string]any{"license_id": u.Active[0], "checks": "valid alone; ExtractLicenses returns it; matches itself; not accepted after WITH"})
	c.Sample(map[string]any{"exception_id": u.Exceptions[0], "checks": "accepted in 'MIT WITH e'; rejected alone, as 'e WITH e', in 'MIT AND e', after '+', in parentheses"})
}
