package main

import (
	"encoding/json"
	"fmt"
	"sort"
	"strings"

	"verif/mon/internal/gen"
	"verif/mon/internal/ref"
)

// C02 — single-term matching follows the documented version / + / exception / ref rules.
//
// Oracle: ref.Match on harness-side denotations vs Satisfies(a,[b]); symmetry and reflexivity are
// asserted on the observations directly.

func init() { register("C02", runC02, replayC02) }

type PairCase struct {
	A gen.Term `json:"a"`
	B gen.Term `json:"b"`
}

func plusClass(a, b gen.Den) string {
	switch {
	case a.Plus && b.Plus:
		return "both_plus"
	case a.Plus:
		return "expr_plus"
	case b.Plus:
		return "allowed_plus"
	}
	return "no_plus"
}

func excClass(a, b gen.Den) string {
	switch {
	case a.Exc == "" && b.Exc == "":
		return "exc_none"
	case a.Exc == b.Exc:
		return "exc_same"
	case a.Exc == "" || b.Exc == "":
		return "exc_one_sided"
	}
	return "exc_different"
}

// judgePair judges Satisfies(a,[b]); when sym is set it also executes the reverse call and checks
// that both orders agree (symmetry asserted on observations, independent of the model).
func judgePair(c *Ctx, a, b gen.Term, sym bool) {
	at, bt := a.Text(), b.Text()
	da, db := a.Denote(c.U), b.Denote(c.U)
	want := ref.Match(c.U, da, db)
	got := c.Sat(at, []string{bt})
	key := "pair:" + at + "~" + bt
	if !got.Clean() {
		c.Violation(key, "C02.match", PairCase{a, b}, "Satisfies(%q,[%q]) of two valid single terms returned %s", at, bt, got)
		return
	}
	if want == ref.Ambiguous {
		c.Inc("ambiguous_table_pairs")
	} else {
		c.Inc("judged_pairs")
		if !da.Ref && !db.Ref {
			pc, ec := plusClass(da, db), excClass(da, db)
			if da.ID != db.ID && len(c.U.TablePos(da.ID)) > 0 && len(c.U.TablePos(db.ID)) > 0 &&
				c.U.TablePos(da.ID)[0].Family == c.U.TablePos(db.ID)[0].Family && da.Exc == db.Exc {
				if want == ref.Yes {
					c.Inc("family_" + pc + "_match")
				} else {
					c.Inc("family_" + pc + "_nomatch")
				}
			}
			c.Inc(ec)
		} else if da.Ref && db.Ref {
			c.CountIf(want == ref.Yes, "ref_ref_match")
			c.CountIf(want == ref.No, "ref_ref_nomatch")
		} else {
			c.Inc("ref_vs_license")
		}
		if got.OK != (want == ref.Yes) {
			c.Violation(key, "C02.match", PairCase{a, b},
				"Satisfies(%q,[%q]) = %v, the matching rule gives %v (denotations %+v vs %+v)", at, bt, got.OK, want == ref.Yes, da, db)
		}
		c.Distinct(gen.HashStr(at, bt))
	}
	if sym {
		rev := c.Sat(bt, []string{at})
		c.Inc("symmetry_checks")
		if !rev.Clean() || rev.OK != got.OK {
			c.Violation("sym:"+at+"~"+bt, "C02.symmetry", PairCase{a, b},
				"Satisfies(%q,[%q]) = %s but Satisfies(%q,[%q]) = %s", at, bt, got, bt, at, rev)
		}
	}
}

func replayC02(c *Ctx, rule string, raw json.RawMessage) {
	var pc PairCase
	if err := json.Unmarshal(raw, &pc); err != nil {
		fmt.Println("bad case:", err)
		return
	}
	if rule == "C02.reflexive" {
		judgeReflexive(c, pc.A)
		return
	}
	judgePair(c, pc.A, pc.B, true)
}

func judgeReflexive(c *Ctx, t gen.Term) {
	tx := t.Text()
	got := c.Sat(tx, []string{tx})
	c.Inc("reflexive_checks")
	if !got.Clean() || !got.OK {
		c.Violation("refl:"+tx, "C02.reflexive", PairCase{t, t}, "valid term %q does not match itself: %s", tx, got)
	}
}

// spellVariants returns the terms for one id: spellings x case variants.
func spellVariants(u *gen.Universe, id string, withCase bool) []gen.Term {
	var out []gen.Term
	for sp := 0; sp <= gen.SpOnlyPlus; sp++ {
		if u.SpellOK(id, sp) {
			out = append(out, gen.Term{ID: id, Spell: sp})
		}
	}
	if withCase {
		out = append(out, gen.Term{ID: id, Case: gen.CaseLower}, gen.Term{ID: id, Case: gen.CaseUpper})
		// a case variant together with a suffix / '+' (only for a sample of ids: the products are large)
		if h := gen.HashStr(id); h%4 == 0 {
			for _, sp := range []int{gen.SpPlus, gen.SpOnly, gen.SpLater, gen.SpLaterPlus, gen.SpOnlyPlus} {
				if u.SpellOK(id, sp) {
					out = append(out, gen.Term{ID: id, Spell: sp, Case: gen.CaseLower}, gen.Term{ID: id, Spell: sp, Case: gen.CaseMixed, CaseKey: h})
				}
			}
		}
	}
	return out
}

// clusters groups listed license ids: table family members together with every id sharing a text stem.
func clusters(u *gen.Universe) [][]string {
	parent := map[string]string{}
	var find func(x string) string
	find = func(x string) string {
		if parent[x] == "" || parent[x] == x {
			parent[x] = x
			return x
		}
		p := find(parent[x])
		parent[x] = p
		return p
	}
	union := func(a, b string) { parent[find(a)] = find(b) }
	byStem := map[string]string{}
	for _, id := range u.AllLicense {
		if strings.Contains(id, "+") {
			continue
		}
		find(id)
		st, _, _, ok := gen.Stem(id)
		if !ok {
			continue
		}
		if first, seen := byStem[st]; seen {
			union(id, first)
		} else {
			byStem[st] = id
		}
	}
	for _, fam := range u.Ranges {
		var first string
		for _, step := range fam {
			for _, id := range step {
				if _, ok := parent[id]; !ok {
					continue // not a listed id (C11 reports it)
				}
				if first == "" {
					first = id
				} else {
					union(id, first)
				}
			}
		}
	}
	groups := map[string][]string{}
	for _, id := range u.AllLicense {
		if strings.Contains(id, "+") {
			continue
		}
		groups[find(id)] = append(groups[find(id)], id)
	}
	var out [][]string
	for _, g := range groups {
		if len(g) >= 2 {
			sort.Strings(g)
			out = append(out, g)
		}
	}
	sort.Slice(out, func(i, j int) bool { return out[i][0] < out[j][0] })
	return out
}

func refTerms() []gen.Term {
	return []gen.Term{
		{Ref: true, LicRef: "a"}, {Ref: true, LicRef: "A"}, {Ref: true, LicRef: "b"},
		{Ref: true, LicRef: "a", DocRef: "d"}, {Ref: true, LicRef: "a", DocRef: "e"}, {Ref: true, LicRef: "a", DocRef: "D"},
		{Ref: true, LicRef: "MIT"}, {Ref: true, LicRef: "a", DocRef: "a"},
		// names that embed the prefixes, names with dots / dashes / digits, long names, case twins
		{Ref: true, LicRef: "LicenseRef-a"}, {Ref: true, LicRef: "DocumentRef-a"}, {Ref: true, LicRef: "a", DocRef: "DocumentRef-d"},
		{Ref: true, LicRef: "a", DocRef: "LicenseRef-d"}, {Ref: true, LicRef: "a-LicenseRef-"}, {Ref: true, LicRef: "a.b-c.1"}, {Ref: true, LicRef: "a.b-c.2"},
		{Ref: true, LicRef: "0"}, {Ref: true, LicRef: "00"}, {Ref: true, LicRef: strings.Repeat("n", 300)}, {Ref: true, LicRef: strings.Repeat("n", 299) + "m"},
		{Ref: true, LicRef: "Acme-Internal"}, {Ref: true, LicRef: "acme-internal"}, {Ref: true, LicRef: "x", DocRef: "Vendor-SBOM"}, {Ref: true, LicRef: "x", DocRef: "vendor-sbom"},
		{Ref: true, LicRef: "Apache-2.0"}, {Ref: true, LicRef: "GPL-2.0-or-later"}, {Ref: true, LicRef: "MIT-only"},
	}
}

func runC02(c *Ctx, phase string) {
	u := c.U
	c.Meta("single terms = every listed license id x valid spellings {plain, +, synthesised -only/-or-later, lower, UPPER} x exceptions {none, E1, E2} and LicenseRef/DocumentRef terms; "+
		"judged pairs: all ordered pairs inside every cluster (table family united with ids sharing a text stem), every term against seeded unrelated terms, all ref x ref and ref x license pairs, "+
		"every term against itself; thorough adds all ordered id x id pairs x {plain,+}^2 with and without a common exception. distinct = (expression text, allowed text); every judged pair is a non-trivial case",
		c.Thorough(), fmt.Sprintf("ids=%d; unrelated partners per term=%d", len(u.AllLicense), c.Pick(40, 80)),
		"denotation of a spelling follows the documented normalisation rules only (doubly suffixed forms are not generated here; C08 judges them relationally)",
		"pairs whose family rule depends on an id listed at more than one table position are executed but not judged (counted as ambiguous_table_pairs)")
	c.Floor("judged_pairs", 10000)
	for _, pc := range []string{"no_plus", "expr_plus", "allowed_plus"} {
		c.Floor("family_"+pc+"_match", 20)
		c.Floor("family_"+pc+"_nomatch", 20)
	}
	c.Floor("family_both_plus_match", 20)
	for _, e := range []string{"exc_none", "exc_same", "exc_one_sided", "exc_different"} {
		c.Floor(e, 100)
	}
	c.Floor("ref_ref_match", 5)
	c.Floor("ref_ref_nomatch", 5)
	c.Floor("ref_vs_license", 100)
	c.Floor("families_visited", int64(len(u.Ranges)))
	c.Floor("reflexive_checks", 1000)

	r0 := gen.NewRand(c.Seed, 0xC02)
	e1 := r0.Pick(u.Exceptions)
	e2 := r0.Pick(u.Exceptions)
	for e2 == e1 {
		e2 = r0.Pick(u.Exceptions)
	}
	excs := []string{"", e1, e2}
	withExc := func(ts []gen.Term) []gen.Term {
		var out []gen.Term
		for _, t := range ts {
			for _, e := range excs {
				t2 := t
				t2.Exc = e
				out = append(out, t2)
			}
		}
		return out
	}

	idx := 0
	// (a) clusters
	cl := clusters(u)
	famSeen := map[int]bool{}
	for _, g := range cl {
		var terms []gen.Term
		for _, id := range g {
			terms = append(terms, withExc(spellVariants(u, id, true))...)
			for _, p := range u.TablePos(id) {
				famSeen[p.Family] = true
			}
		}
		// large clusters (CC-BY-*): exceptions only on the plain and + spellings to bound the square
		if len(terms) > 260 {
			terms = terms[:0]
			for _, id := range g {
				sv := spellVariants(u, id, true)
				terms = append(terms, sv...)
				for _, t := range sv {
					if t.Case == 0 && t.Spell <= gen.SpPlus {
						t.Exc = e1
						terms = append(terms, t)
					}
				}
			}
		}
		for i := range terms {
			for j := range terms {
				idx++
				if !c.Mine(idx) {
					continue
				}
				judgePair(c, terms[i], terms[j], false)
			}
		}
	}
	if c.Shard == 0 {
		c.Count("families_visited", int64(len(famSeen)))
		c.Count("clusters", int64(len(cl)))
	}
	// (b) every term against seeded unrelated terms, with symmetry executed
	nPartners := c.Pick(40, 80)
	var all []gen.Term
	for _, id := range u.AllLicense {
		all = append(all, withExc(spellVariants(u, id, true))...)
	}
	for i, t := range all {
		if !c.Mine(i) {
			continue
		}
		judgeReflexive(c, t)
		r := gen.NewRand(c.Seed, 0xC02B, uint64(i))
		for p := 0; p < nPartners; p++ {
			o := all[r.Intn(len(all))]
			if p%8 == 0 {
				o = relatedTerm(u, r, t)
			}
			judgePair(c, t, o, p%4 == 0)
		}
		if c.WantSample() && i%531 == 0 {
			o := all[r.Intn(len(all))]
			c.Sample(map[string]any{"expression": t.Text(), "allowed": []string{o.Text()}, "model_says_match": ref.Match(u, t.Denote(u), o.Denote(u)) == ref.Yes})
		}
	}
	// (c) refs
	refs := refTerms()
	for i, a := range refs {
		if c.Mine(i) {
			judgeReflexive(c, a)
			for _, b := range refs {
				judgePair(c, a, b, true)
			}
		}
	}
	for i, t := range all {
		if !c.Mine(i) || i%3 != 0 {
			continue
		}
		rt := refs[i%len(refs)]
		judgePair(c, t, rt, false)
		judgePair(c, rt, t, false)
	}
	// (d) thorough: every ordered id x id pair x {plain,+}^2, with and without a common exception
	if c.Thorough() {
		ids := make([]string, 0, len(u.AllLicense))
		for _, id := range u.AllLicense {
			if !strings.Contains(id, "+") {
				ids = append(ids, id)
			}
		}
		for i, x := range ids {
			if !c.Mine(i) {
				continue
			}
			for _, y := range ids {
				for m := 0; m < 4; m++ {
					a := gen.Term{ID: x}
					b := gen.Term{ID: y}
					if m&1 != 0 {
						a.Spell = gen.SpPlus
					}
					if m&2 != 0 {
						b.Spell = gen.SpPlus
					}
					judgePair(c, a, b, false)
					a.Exc, b.Exc = e1, e1
					judgePair(c, a, b, false)
				}
			}
			c.Inc("exhaustive_id_rows")
		}
	}
}
