package main

import (
	"bufio"
	"encoding/binary"
	"encoding/json"
	"fmt"
	"os"
	"runtime"
	"sort"
	"syscall"
	"time"

	"github.com/github/go-spdx/v2/spdxexp"

	"verif/mon/internal/ev"
	"verif/mon/internal/gen"
)

// Ctx is the per-child monitoring context: library call wrappers (recover + journal + counting),
// event output, counters, distinct-case hashes.
type Ctx struct {
	Prop    string
	Tier    string
	Seed    uint64
	Shard   int
	NShards int
	Replay  bool
	U       *gen.Universe

	out      *bufio.Writer
	outFile  *os.File
	journal  []byte
	seq      uint64
	evals    int64
	counters map[string]int64
	distinct map[uint64]struct{}
	distFile string
	samples  int
	violKeys map[string]int64
	nViol    int
	start    time.Time

	validCache map[string]bool
	noHash     bool
}

func (c *Ctx) Thorough() bool { return c.Tier == "thorough" }

// Pick returns q for the quick tier and t for the thorough tier.
func (c *Ctx) Pick(q, t int) int {
	if c.Thorough() {
		return t
	}
	return q
}

// Mine reports whether case index i belongs to this shard.
func (c *Ctx) Mine(i int) bool { return i%c.NShards == c.Shard }

func (c *Ctx) emit(e ev.Event) {
	if c.out == nil {
		return
	}
	b, err := json.Marshal(e)
	if err != nil {
		fmt.Fprintln(os.Stderr, "harness: cannot marshal event:", err)
		os.Exit(4)
	}
	c.out.Write(b)
	c.out.WriteByte('\n')
}

func (c *Ctx) Count(name string, n int64) { c.counters[name] += n }
func (c *Ctx) Inc(name string)            { c.counters[name]++ }
func (c *Ctx) CountIf(b bool, name string) {
	if b {
		c.counters[name]++
	}
}

// Max keeps the maximum under a "max:" name (merged by max in the orchestrator).
func (c *Ctx) Max(name string, v int64) {
	if v > c.counters["max:"+name] {
		c.counters["max:"+name] = v
	}
}

// DistinctN adds n cases that are distinct by construction (complete enumerations too large to hash).
func (c *Ctx) DistinctN(n int64) { c.counters["distinct_by_construction"] += n }

// Distinct records the hash of one distinct non-trivial case.
func (c *Ctx) Distinct(h uint64) { c.distinct[h] = struct{}{} }

// Sample writes out an actual case (at most a few per shard).
func (c *Ctx) Sample(v any) {
	if c.samples >= 4 {
		return
	}
	c.samples++
	b, _ := json.Marshal(v)
	c.emit(ev.Event{T: "sample", Sample: b})
}

func (c *Ctx) WantSample() bool { return c.samples < 4 }

// Meta / Floor / Note are emitted by shard 0 only.
func (c *Ctx) Meta(rule string, exhaustive bool, bounds string, assumptions ...string) {
	if c.Shard == 0 {
		c.emit(ev.Event{T: "meta", RuleText: rule, Exhaustive: exhaustive, Bounds: bounds, Assumptions: assumptions})
	}
}

func (c *Ctx) Floor(name string, min int64) {
	if c.Shard == 0 {
		c.emit(ev.Event{T: "floor", Name: name, Min: min})
	}
}

func (c *Ctx) Note(format string, a ...any) {
	c.emit(ev.Event{T: "note", Text: fmt.Sprintf(format, a...)})
}

// Violation records one oracle disagreement. key names the specific input / table entry / family
// (it is what KNOWN_FINDINGS.txt matches on); cas is the JSON-serialisable case that replays it.
func (c *Ctx) Violation(key, rule string, cas any, format string, a ...any) {
	c.nViol++
	c.violKeys[key]++
	detail := fmt.Sprintf(format, a...)
	if c.Replay {
		fmt.Printf("REPRODUCED key=%s rule=%s %s\n", key, rule, detail)
		return
	}
	if c.violKeys[key] > 3 || len(c.violKeys) > 400 {
		return // counted, not written out again
	}
	b, err := json.Marshal(cas)
	if err != nil {
		b, _ = json.Marshal(fmt.Sprintf("unserialisable case: %v", err))
	}
	c.emit(ev.Event{T: "viol", Key: key, Rule: rule, Detail: detail, Case: b, Shard: c.Shard})
	c.out.Flush()
}

// Finish writes the final stat record and the distinct-hash file.
func (c *Ctx) Finish() {
	for k, n := range c.violKeys {
		if n > 3 {
			c.emit(ev.Event{T: "viol", Key: k, Count: n - 3, Shard: c.Shard})
		}
	}
	c.counters["max:wall_ms"] = time.Since(c.start).Milliseconds()
	c.emit(ev.Event{T: "stat", Evals: c.evals, Counters: c.counters, Shard: c.Shard})
	c.emit(ev.Event{T: "done", Shard: c.Shard})
	if c.out != nil {
		c.out.Flush()
		c.outFile.Close()
	}
	if c.distFile != "" {
		hs := make([]uint64, 0, len(c.distinct))
		for h := range c.distinct {
			hs = append(hs, h)
		}
		sort.Slice(hs, func(i, j int) bool { return hs[i] < hs[j] })
		buf := make([]byte, 8*len(hs))
		for i, h := range hs {
			binary.LittleEndian.PutUint64(buf[8*i:], h)
		}
		if err := os.WriteFile(c.distFile, buf, 0o644); err != nil {
			fmt.Fprintln(os.Stderr, "harness: cannot write distinct file:", err)
			os.Exit(4)
		}
	}
}

// ---- journal -------------------------------------------------------------------------------

func (c *Ctx) openJournal(path string) {
	f, err := os.OpenFile(path, os.O_RDWR|os.O_CREATE|os.O_TRUNC, 0o644)
	if err != nil {
		fmt.Fprintln(os.Stderr, "harness: journal:", err)
		os.Exit(4)
	}
	if err := f.Truncate(ev.JournalSize); err != nil {
		fmt.Fprintln(os.Stderr, "harness: journal:", err)
		os.Exit(4)
	}
	m, err := syscall.Mmap(int(f.Fd()), 0, ev.JournalSize, syscall.PROT_READ|syscall.PROT_WRITE, syscall.MAP_SHARED)
	if err != nil {
		fmt.Fprintln(os.Stderr, "harness: journal mmap:", err)
		os.Exit(4)
	}
	f.Close()
	c.journal = m
}

// begin journals the call that is about to be made (function + argument bytes), so that a fatal,
// unrecoverable death of the child can be attributed to it by the orchestrator.
func (c *Ctx) begin(fn uint32, args ...string) {
	c.evals++
	j := c.journal
	if j == nil {
		return
	}
	c.seq++
	binary.LittleEndian.PutUint32(j[ev.JFnOff:], fn)
	binary.LittleEndian.PutUint64(j[ev.JSeqOff:], c.seq)
	off := ev.JPayloadOff
	trunc := uint32(0)
	n := uint32(0)
	for _, a := range args {
		w := a
		if len(w) > ev.JournalArgCap {
			w = w[:ev.JournalArgCap]
			trunc = 1
		}
		if off+8+len(w) > len(j) {
			trunc = 1
			break
		}
		binary.LittleEndian.PutUint32(j[off:], uint32(len(w)))
		binary.LittleEndian.PutUint32(j[off+4:], uint32(len(a)))
		copy(j[off+8:], w)
		off += 8 + len(w)
		n++
	}
	binary.LittleEndian.PutUint32(j[ev.JNArgsOff:], n)
	binary.LittleEndian.PutUint32(j[ev.JTruncOff:], trunc)
	binary.LittleEndian.PutUint32(j[ev.JStateOff:], 1)
}

func (c *Ctx) end() {
	if c.journal != nil {
		binary.LittleEndian.PutUint32(c.journal[ev.JStateOff:], 0)
	}
}

// ---- library call wrappers -----------------------------------------------------------------

// SatRes is the observed outcome of one Satisfies call.
type SatRes struct {
	OK    bool   `json:"ok"`
	Err   string `json:"err,omitempty"`
	IsErr bool   `json:"is_err,omitempty"`
	Panic string `json:"panic,omitempty"`
}

func (r SatRes) String() string {
	switch {
	case r.Panic != "":
		return "panic(" + r.Panic + ")"
	case r.IsErr:
		return fmt.Sprintf("(%v, error %q)", r.OK, r.Err)
	}
	return fmt.Sprintf("%v", r.OK)
}

// Clean reports a normal, error-free return.
func (r SatRes) Clean() bool { return r.Panic == "" && !r.IsErr }

type ExtRes struct {
	List  []string `json:"list"`
	Nil   bool     `json:"nil,omitempty"`
	Err   string   `json:"err,omitempty"`
	IsErr bool     `json:"is_err,omitempty"`
	Panic string   `json:"panic,omitempty"`
}

func (r ExtRes) Clean() bool { return r.Panic == "" && !r.IsErr }
func (r ExtRes) String() string {
	switch {
	case r.Panic != "":
		return "panic(" + r.Panic + ")"
	case r.IsErr:
		return fmt.Sprintf("(%q, error %q)", r.List, r.Err)
	}
	return fmt.Sprintf("%q", r.List)
}

type ValRes struct {
	OK      bool     `json:"ok"`
	Invalid []string `json:"invalid"`
	Panic   string   `json:"panic,omitempty"`
}

func (r ValRes) String() string {
	if r.Panic != "" {
		return "panic(" + r.Panic + ")"
	}
	return fmt.Sprintf("(%v, %q)", r.OK, r.Invalid)
}

func panicText(p any) string {
	s := fmt.Sprint(p)
	if len(s) > 200 {
		s = s[:200]
	}
	if s == "" {
		s = "<empty panic value>"
	}
	return s
}

func (c *Ctx) Sat(expr string, allowed []string) (res SatRes) {
	args := make([]string, 0, 1+len(allowed))
	args = append(args, expr)
	args = append(args, allowed...)
	c.begin(ev.FnSatisfies, args...)
	defer func() {
		if p := recover(); p != nil {
			res = SatRes{Panic: panicText(p)}
			c.counters["panics"]++
		}
		c.end()
	}()
	ok, err := spdxexp.Satisfies(expr, allowed)
	res.OK = ok
	if err != nil {
		res.IsErr = true
		res.Err = err.Error()
	}
	return res
}

func (c *Ctx) Ext(expr string) (res ExtRes) {
	c.begin(ev.FnExtract, expr)
	defer func() {
		if p := recover(); p != nil {
			res = ExtRes{Panic: panicText(p)}
			c.counters["panics"]++
		}
		c.end()
	}()
	l, err := spdxexp.ExtractLicenses(expr)
	res.List = l
	res.Nil = l == nil
	if err != nil {
		res.IsErr = true
		res.Err = err.Error()
	}
	return res
}

func (c *Ctx) Val(list []string) (res ValRes) {
	c.begin(ev.FnValidate, list...)
	defer func() {
		if p := recover(); p != nil {
			res = ValRes{Panic: panicText(p)}
			c.counters["panics"]++
		}
		c.end()
	}()
	ok, inv := spdxexp.ValidateLicenses(list)
	res.OK = ok
	res.Invalid = inv
	return res
}

// Valid is the single-string validity verdict v(s) := ValidateLicenses([s]) == (true, []).
// A panic counts as "not valid" for the caller and is reported by the caller's own rule.
func (c *Ctx) Valid(s string) bool {
	r := c.Val([]string{s})
	return r.Panic == "" && r.OK && len(r.Invalid) == 0
}

// ValidCached memoises Valid per child (used where the same pool strings recur thousands of times).
func (c *Ctx) ValidCached(s string) bool {
	if c.validCache == nil {
		c.validCache = map[string]bool{}
	}
	if v, ok := c.validCache[s]; ok {
		return v
	}
	v := c.Valid(s)
	if len(c.validCache) < 1<<20 {
		c.validCache[s] = v
	}
	return v
}

// memWatch exits the child when its heap exceeds capBytes: a guard, not an oracle (exit code 3 =>
// the orchestrator reports MEMCAP with the journalled call).
func memWatch(capBytes uint64) {
	go func() {
		var ms runtime.MemStats
		for {
			time.Sleep(200 * time.Millisecond)
			runtime.ReadMemStats(&ms)
			if ms.HeapAlloc > capBytes {
				fmt.Fprintf(os.Stderr, "MEMCAP heap=%d cap=%d\n", ms.HeapAlloc, capBytes)
				os.Exit(3)
			}
		}
	}()
}
