package main

import (
	"encoding/json"
	"fmt"
	"sort"
	"strings"

	"verif/mon/internal/ev"
	"verif/mon/internal/gen"
)

// C07 — the allowed list behaves as a set and the verdict is monotone in it.
//
// Oracle (relational): Satisfies(e, A) against Satisfies(e, A') for A' a permutation, a duplication,
// a re-spelling of A, or an extension A ∪ B.

func init() { register("C07", runC07, replayC07) }

type C07Case struct {
	Expr    ev.QS   `json:"expr"`
	Base    []ev.QS `json:"base"`
	Variant []ev.QS `json:"variant"`
	Kind    string  `json:"kind"` // permute | reverse-sorted | duplicate | respell | extend
}

func judgeC07(c *Ctx, cs C07Case) {
	e := string(cs.Expr)
	base, variant := ev.Strs(cs.Base), ev.Strs(cs.Variant)
	b := c.Sat(e, base)
	v := c.Sat(e, variant)
	key := "set:" + cs.Kind + ":" + trunc(e, 50) + "|" + trunc(strings.Join(base, ","), 50)
	if !b.Clean() || !v.Clean() {
		c.Violation(key, "C07."+cs.Kind, cs, "valid expression and valid lists gave an error/panic: Satisfies(%q,%q)=%s, Satisfies(%q,%q)=%s", e, base, b, e, variant, v)
		return
	}
	c.CountIf(b.OK, "base_true")
	c.CountIf(!b.OK, "base_false")
	c.Inc("variant_" + cs.Kind)
	if cs.Kind == "extend" {
		if b.OK && !v.OK {
			c.Violation(key, "C07.extend", cs, "Satisfies(%q,%q)=true but with further valid entries Satisfies(%q,%q)=false", e, base, e, variant)
		}
		c.CountIf(!b.OK && v.OK, "extensions_flipped_false_to_true")
		return
	}
	if b.OK != v.OK {
		c.Violation(key, "C07."+cs.Kind, cs, "Satisfies(%q,%q)=%v but Satisfies(%q,%q)=%v (%s of the same list)", e, base, b.OK, e, variant, v.OK, cs.Kind)
	}
}

func replayC07(c *Ctx, rule string, raw json.RawMessage) {
	var cs C07Case
	if err := json.Unmarshal(raw, &cs); err != nil {
		fmt.Println("bad case:", err)
		return
	}
	judgeC07(c, cs)
}

// respellEntry re-spells one allowed entry without changing what it denotes: letter case of listed
// ids, surrounding spaces, (nested) parentheses.
func respellEntry(u *gen.Universe, r *gen.Rand, t gen.Term) string {
	o := t
	if !o.Ref && r.Chance(2, 3) {
		o.Case = 1 + r.Intn(3)
		o.CaseKey = r.U64()
	}
	s := o.Text()
	for n := r.Intn(3); n > 0; n-- {
		s = "(" + s + ")"
	}
	if r.Chance(1, 2) {
		s = strings.Repeat(" ", r.Intn(3)) + s + strings.Repeat(" ", r.Intn(3))
	}
	return s
}

func runC07(c *Ctx, phase string) {
	n := c.Pick(20000, 400000)
	c.Meta("expressions from the C01 generator x allowed lists of 1..40 valid single terms (random subsets of the expression's terms, unrelated terms, and deliberate near-duplicate clusters: same id with and without +, "+
		"other exception, same LicenseRef under other DocumentRefs, GPL-2.0 next to GPL-2.0-only) x 6 variants (random permutation, reverse-sorted order, duplication, re-spelling by case/spaces/parentheses, two extensions). "+
		"distinct = (expression, base list, variant list); every case is non-trivial (two related calls)",
		false, fmt.Sprintf("base pairs=%d", n), "both calls of a pair go to the same library: the oracle is the relation the property states, no reference model")
	c.Floor("base_true", int64(n/2))
	c.Floor("base_false", int64(n/2))
	c.Floor("extensions_flipped_false_to_true", 300)
	c.Floor("lists_with_3plus_near_duplicates", 300)
	c.Floor("lists_with_9plus_entries", 1000)
	c.Floor("lists_with_33plus_entries", 200)
	c.Floor("long_list_cases", 300)
	c.Floor("population_cases", int64(c.Pick(24, 400)))
	for _, k := range []string{"permute", "reverse-sorted", "duplicate", "respell", "extend"} {
		c.Floor("variant_"+k, int64(n/2))
	}
	u := c.U
	// long lists (256..700 entries): implementations batch / index / parallelise above size thresholds
	nBig := c.Pick(400, 4000)
	for i := 0; i < nBig; i++ {
		if !c.Mine(i) {
			continue
		}
		bc := genBigCase(c, "C07", 2*i+1) // odd indices are the long-list mode
		r := gen.NewRand(c.Seed, 0xC07B, uint64(i))
		base := termTexts(bc.Allowed)
		e := bc.Text
		mk := func(kind string, variant []string) {
			judgeC07(c, C07Case{Expr: e, Base: ev.QSs(base), Variant: ev.QSs(variant), Kind: kind})
			c.Distinct(gen.HashStr(string(e), kind, strings.Join(variant, "\x00")))
		}
		rev := make([]string, len(base))
		for j := range base {
			rev[j] = base[len(base)-1-j]
		}
		mk("permute", rev)
		rot := append(append([]string{}, base[len(base)/3:]...), base[:len(base)/3]...)
		mk("permute", rot)
		dup := append(append([]string{}, base...), base[r.Intn(len(base))], base[0], base[len(base)-1])
		mk("duplicate", dup)
		ext := append([]string{u.RandomTerm(r).Text(), u.RandomTerm(r).Text()}, base...)
		mk("extend", ext)
		ext2 := append(append([]string{}, base...), termTexts(bc.Terms)...)
		mk("extend", ext2)
		c.Inc("long_list_cases")
		c.Max("longest_list", int64(len(base)))
	}
	// populations: 5000 distinct random references; the expression needs a random half of them
	for i := 0; i < c.Pick(24, 400); i++ {
		if !c.Mine(i) {
			continue
		}
		pop := genPopulation(c, "C07", i, 5000)
		r := gen.NewRand(c.Seed, 0xC07D, uint64(i))
		var need []string
		for _, p := range pop {
			if r.Chance(1, 2) {
				need = append(need, p)
			}
		}
		e := ev.QS(strings.Join(need, " AND "))
		rev := make([]string, len(pop))
		for j := range pop {
			rev[j] = pop[len(pop)-1-j]
		}
		judgeC07(c, C07Case{Expr: e, Base: ev.QSs(pop), Variant: ev.QSs(rev), Kind: "permute"})
		c.Distinct(gen.HashStr("pop", string(e)))
		c.Inc("population_cases")
	}
	for i := 0; i < n; i++ {
		if !c.Mine(i) {
			continue
		}
		tc := genRandomTree(c, "C07", i, 256)
		r := gen.NewRand(c.Seed, 0xC07, uint64(i))
		var terms []gen.Term
		for _, t := range tc.Terms {
			if r.Chance(1, 2) {
				terms = append(terms, t)
			}
		}
		extra := r.Intn(4)
		if r.Chance(1, 4) {
			extra += 6 + r.Intn(50) // long lists: implementations may index / bisect / cap above a size threshold
		}
		for j := 0; j < extra; j++ {
			terms = append(terms, u.RandomTerm(r))
		}
		nearDup := 0
		if r.Chance(1, 2) && len(tc.Terms) > 0 {
			src := tc.Terms[r.Intn(len(tc.Terms))]
			m := 1 + r.Intn(4)
			for j := 0; j < m; j++ {
				terms = append(terms, relatedTerm(u, r, src))
				nearDup++
			}
		}
		if len(terms) == 0 {
			terms = append(terms, u.RandomTerm(r))
		}
		c.CountIf(nearDup >= 3, "lists_with_3plus_near_duplicates")
		c.CountIf(len(terms) >= 9, "lists_with_9plus_entries")
		c.CountIf(len(terms) >= 33, "lists_with_33plus_entries")
		// shuffle the base
		p := r.Perm(len(terms))
		base := make([]string, len(terms))
		bt := make([]gen.Term, len(terms))
		for a, b := range p {
			base[a] = terms[b].Text()
			bt[a] = terms[b]
		}
		e := tc.Text
		mk := func(kind string, variant []string) {
			cs := C07Case{Expr: e, Base: ev.QSs(base), Variant: ev.QSs(variant), Kind: kind}
			judgeC07(c, cs)
			c.Distinct(gen.HashStr(string(e), kind, strings.Join(base, "\x00"), strings.Join(variant, "\x00")))
			if c.WantSample() && kind == "extend" && len(base) >= 2 {
				c.Sample(cs)
			}
		}
		// permutation
		q := r.Perm(len(base))
		perm := make([]string, len(base))
		for a, b := range q {
			perm[a] = base[b]
		}
		mk("permute", perm)
		rs := append([]string{}, base...)
		sort.Sort(sort.Reverse(sort.StringSlice(rs)))
		mk("reverse-sorted", rs)
		// duplication
		dup := append([]string{}, base...)
		for j := 1 + r.Intn(3); j > 0; j-- {
			at := r.Intn(len(dup) + 1)
			dup = append(dup[:at], append([]string{base[r.Intn(len(base))]}, dup[at:]...)...)
		}
		mk("duplicate", dup)
		// re-spelling
		rsp := make([]string, len(base))
		for j := range base {
			rsp[j] = respellEntry(u, r, bt[j])
		}
		mk("respell", rsp)
		// two extensions: one with terms of the expression not yet allowed (can flip), one unrelated
		ext1 := append([]string{}, base...)
		for _, t := range tc.Terms {
			if r.Chance(2, 3) {
				ext1 = append(ext1, t.Text())
			}
		}
		ext1 = append(ext1, relatedTerm(u, r, tc.Terms[r.Intn(len(tc.Terms))]).Text())
		mk("extend", ext1)
		ext2 := append([]string{u.RandomTerm(r).Text()}, base...)
		ext2 = append(ext2, u.RandomTerm(r).Text())
		mk("extend", ext2)
	}
}
