package main

import (
	"encoding/json"
	"fmt"
	"strings"

	"verif/mon/internal/ev"
	"verif/mon/internal/gen"
)

// C05 — the accepted language is exactly the documented SPDX expression grammar.
//
// Oracle: gen.Recognise (LL(1) recogniser over token kinds, written from the grammar in the
// statement) vs ValidateLicenses([render(seq)]).

func init() { register("C05", runC05, replayC05) }

type SeqCase struct {
	Kinds []int   `json:"kinds"`
	Names string  `json:"kind_names"`
	Lex   []ev.QS `json:"lexemes"`
	Tight bool    `json:"tight"`
	Text  ev.QS   `json:"text"`
}

func kindNames(kinds []int) string {
	s := make([]string, len(kinds))
	for i, k := range kinds {
		s[i] = gen.KindNames[k]
	}
	return strings.Join(s, " ")
}

// judgeSeqEnum is judgeSeq for the exhaustive enumeration: the cases are distinct by construction (distinct kind
// sequence x spacing), so they are counted instead of hashed (length 6 has 64M sequences).
func judgeSeqEnum(c *Ctx, kinds []int, lex []string, tight bool, text string) {
	c.noHash = true
	judgeSeq(c, kinds, lex, tight, text)
	c.noHash = false
}

func judgeSeq(c *Ctx, kinds []int, lex []string, tight bool, text string) {
	want := gen.Recognise(kinds)
	got := c.Val([]string{text})
	sc := SeqCase{kinds, kindNames(kinds), ev.QSs(lex), tight, ev.QS(text)}
	if got.Panic != "" {
		c.Violation("seq-panic:"+kindNames(kinds), "C05.language", sc, "ValidateLicenses([%q]) panicked (%s); the grammar says %s", text, got.Panic, map[int]string{0: "reject", 1: "accept", 2: "unspecified"}[want])
		return
	}
	acc := got.OK && len(got.Invalid) == 0
	if want == gen.RefUnspecified {
		c.Inc("unspecified")
		c.CountIf(acc, "unspecified_accepted")
		return
	}
	if c.noHash {
		c.DistinctN(1)
	} else {
		c.Distinct(gen.HashStr(text))
	}
	if want == gen.RefAccept {
		c.Inc("ref_accept")
		for _, k := range kinds {
			c.Inc("accepted_with_" + gen.KindNames[k])
		}
	} else {
		c.Inc("ref_reject")
	}
	if acc != (want == gen.RefAccept) {
		verb := "rejected"
		if acc {
			verb = "accepted"
		}
		c.Violation("seq:"+kindNames(kinds)+map[bool]string{true: ":tight", false: ""}[tight], "C05.language", sc,
			"%q [%s] is %s by the library; the documented grammar says %v", text, kindNames(kinds), verb, want == gen.RefAccept)
	}
}

func replayC05(c *Ctx, rule string, raw json.RawMessage) {
	if rule == "C05.big" {
		var bc struct {
			Name string `json:"name"`
		}
		json.Unmarshal(raw, &bc)
		for _, b := range bigStringsTier(c.U, gen.NewRand(c.Seed, 0xC05B), c.Thorough()) {
			if b.Name == bc.Name && c.Valid(b.S) != b.Valid {
				c.Violation("big:"+b.Name, "C05.big", bc, "large input %q is valid=%v by construction but the library disagrees", b.Name, b.Valid)
			}
		}
		return
	}
	var sc SeqCase
	if err := json.Unmarshal(raw, &sc); err != nil {
		fmt.Println("bad case:", err)
		return
	}
	judgeSeq(c, sc.Kinds, ev.Strs(sc.Lex), sc.Tight, string(sc.Text))
}

func runC05(c *Ctx, phase string) {
	u := c.U
	L := c.Pick(4, 6)
	nLong := c.Pick(120000, 600000)
	c.Meta(fmt.Sprintf("every sequence over the 20 token kinds {ACT, LONLY, LLATER, SONLY, SLATER, DEP, FOLD, EXC, UNK, LREF, DREF, ':', '(', ')', AND, OR, WITH, '+', ' +', lower-case operator} "+
		"up to length %d, each kind freshly instantiated from the shipped lists (random letter case for listed ids one time in four), rendered loose (one space) and tight (no space around parentheses and ':'); "+
		"plus generator-valid expressions of 3-40 tokens and each of them with one token deleted, inserted or replaced. distinct = distinct rendered string; non-trivial = judged (not in the unspecified class)", L),
		true, fmt.Sprintf("exhaustive to length %d (%d kinds); long near-valid sequences=%d", L, gen.NumKinds, nLong),
		"a foldable deprecated id followed by two '+' (AGPL-3.0++) is executed but not judged: C05's grammar and C08's interchangeability disagree on it",
		"only spellings inside the alphabet are generated (no suffixes on exception ids or deprecated-only ids, no operators abutting ids)")
	c.Floor("ref_accept", 100)
	c.Floor("ref_reject", 1000)
	c.Floor("big_strings", 10)
	if len(u.UnlistedStems) > 0 {
		c.Floor("hostile_unknown_id_sequences", int64(len(u.UnlistedStems)))
	}
	for k := 0; k < gen.NumKinds; k++ {
		switch k {
		case gen.KUnk, gen.KSPlus, gen.KLowOp:
		default:
			c.Floor("accepted_with_"+gen.KindNames[k], 3)
		}
	}

	total := 0
	for n := 1; n <= L; n++ {
		cnt := 1
		for i := 0; i < n; i++ {
			cnt *= gen.NumKinds
		}
		for code := 0; code < cnt; code++ {
			total++
			if !c.Mine(total) {
				continue
			}
			kinds := make([]int, n)
			for i, v := 0, code; i < n; i++ {
				kinds[i] = v % gen.NumKinds
				v /= gen.NumKinds
			}
			r := gen.NewRand(c.Seed, 0xC05, uint64(n), uint64(code))
			lex := make([]string, n)
			for i, k := range kinds {
				lex[i] = u.Lexeme(k, r)
			}
			loose := gen.RenderTokens(kinds, lex, false, nil)
			judgeSeqEnum(c, kinds, lex, false, loose)
			tight := gen.RenderTokens(kinds, lex, true, nil)
			if tight != loose {
				judgeSeqEnum(c, kinds, lex, true, tight)
			}
			if c.WantSample() && gen.Recognise(kinds) == gen.RefAccept && n >= 3 {
				c.Sample(map[string]any{"kinds": kindNames(kinds), "loose": loose, "tight": tight, "grammar": "accept"})
			}
		}
	}
	// large inputs (valid by construction, or corrupted at one place): sizes beyond any plausible buffer / batch threshold
	{
		for bi, b := range bigStringsTier(u, gen.NewRand(c.Seed, 0xC05B), c.Thorough()) {
			if !c.Mine(bi) {
				continue
			}
			got := c.Valid(b.S)
			c.Inc("big_strings")
			if got != b.Valid {
				c.Violation("big:"+b.Name, "C05.big", map[string]any{"name": b.Name, "bytes": len(b.S)}, "large input %q (%d bytes, starts %q) is valid=%v by construction but the library says valid=%v", b.Name, len(b.S), trunc(b.S, 60), b.Valid, got)
			}
		}
	}
	// hostile unknown ids: stems U that are on no list although U-or-later / U-only is. They are unknown ids
	// (kind UNK) like any other and must be rejected wherever they stand.
	hostile := append([]string{}, u.UnlistedStems...)
	nStems := len(hostile)
	// listed ids re-spelled with characters that Unicode case folding (not ASCII case folding) equates with ASCII letters:
	// U+017F LATIN SMALL LETTER LONG S ~ s, U+212A KELVIN SIGN ~ k. They are not id characters at all.
	fold := strings.NewReplacer("s", "\u017f", "S", "\u017f", "k", "\u212a", "K", "\u212a")
	for i, id := range append(append([]string{}, u.AllLicense...), u.Exceptions...) {
		if tw := fold.Replace(id); tw != id && i%7 == 0 {
			hostile = append(hostile, tw)
		}
	}
	for i, st := range hostile {
		if !c.Mine(i) {
			continue
		}
		r := gen.NewRand(c.Seed, 0xC057, uint64(i))
		variants := []string{st, strings.ToLower(st), strings.ToUpper(st)}
		if i >= nStems {
			variants = []string{st}
		}
		for _, v := range variants {
			for _, seq := range [][]int{{gen.KUnk}, {gen.KUnk, gen.KPlus}, {gen.KUnk, gen.KWith, gen.KExc}, {gen.KUnk, gen.KPlus, gen.KWith, gen.KExc},
				{gen.KAct, gen.KAnd, gen.KUnk, gen.KPlus}, {gen.KLP, gen.KUnk, gen.KPlus, gen.KRP}, {gen.KUnk, gen.KPlus, gen.KOr, gen.KAct}, {gen.KAct, gen.KWith, gen.KUnk}} {
				lex := make([]string, len(seq))
				for j, k := range seq {
					if k == gen.KUnk {
						lex[j] = v
					} else {
						lex[j] = u.Lexeme(k, r)
					}
				}
				judgeSeq(c, seq, lex, false, gen.RenderTokens(seq, lex, false, nil))
				c.Inc("hostile_unknown_id_sequences")
			}
		}
	}
	// long near-valid sequences
	for i := 0; i < nLong; i++ {
		if !c.Mine(i) {
			continue
		}
		tc := genRandomTree(c, "C05", i, 256)
		r := gen.NewRand(c.Seed, 0xC055, uint64(i))
		kinds, lex := u.ASTTokens(tc.Tree, tc.Terms, r)
		if len(kinds) > 60 {
			continue
		}
		tight := r.Chance(1, 3)
		judgeSeq(c, kinds, lex, tight, gen.RenderTokens(kinds, lex, tight, r))
		c.Inc("long_valid")
		// one mutation
		k2 := append([]int{}, kinds...)
		l2 := append([]string{}, lex...)
		p := r.Intn(len(k2))
		switch r.Intn(3) {
		case 0: // delete
			k2 = append(k2[:p], k2[p+1:]...)
			l2 = append(l2[:p], l2[p+1:]...)
		case 1: // insert
			k := r.Intn(gen.NumKinds)
			k2 = append(k2[:p], append([]int{k}, k2[p:]...)...)
			l2 = append(l2[:p], append([]string{u.Lexeme(k, r)}, l2[p:]...)...)
		default: // replace
			k := r.Intn(gen.NumKinds)
			k2[p] = k
			l2[p] = u.Lexeme(k, r)
		}
		if len(k2) > 0 {
			judgeSeq(c, k2, l2, tight, gen.RenderTokens(k2, l2, tight, r))
			c.Inc("long_mutated")
		}
	}
}
