package main

import (
	"encoding/json"
	"fmt"
	"sort"
	"strings"

	"verif/mon/internal/gen"
)

var _ = strings.ToLower

// C06 — ExtractLicenses returns exactly the distinct terms of the expression.
//
// Oracle: the generator's tree is the ground truth for the leaf set; canon(t) is observed through
// the single-term call ExtractLicenses(text(t)) (no expansion involved) and judged against the
// harness' own denotation; plus the round-trip relations of the statement.

func init() { register("C06", runC06, replayC06) }

// parseCanon splits a canonical single-term string "<id>[+][ WITH <exc>]" (harness side, no library).
func parseCanon(s string) (id string, plus bool, exc string) {
	if i := strings.Index(s, " WITH "); i >= 0 {
		exc = s[i+6:]
		s = s[:i]
	}
	if strings.HasSuffix(s, "+") {
		plus = true
		s = s[:len(s)-1]
	}
	return s, plus, exc
}

// judgeCanonTerm checks the canonical spelling of one term: ExtractLicenses(text(t)) must be one
// string that spells t's denotation with list casing. Returns the canonical string.
func judgeCanonTerm(c *Ctx, t gen.Term) (string, bool) {
	tx := t.Text()
	got := c.Ext(tx)
	c.Inc("canon_checks")
	if !got.Clean() || len(got.List) != 1 {
		c.Violation("canon-single:"+tx, "C06.canon", t, "ExtractLicenses(%q) of a valid single term returned %s, want exactly one string", tx, got)
		return "", false
	}
	r := got.List[0]
	d := t.Denote(c.U)
	if d.Ref {
		if r != tx {
			c.Violation("canon-ref:"+tx, "C06.canon", t, "ExtractLicenses(%q) = [%q]: references must be kept verbatim", tx, r)
			return r, false
		}
		return r, true
	}
	id, plus, exc := parseCanon(r)
	listed := c.U.ActiveSet[id] || c.U.DepSet[id]
	// a deprecated X spelled X+ denotes the listed id X-or-later; reporting it unfolded as "X+" is equally canonical
	okID := id == d.ID || (d.Plus && plus && id+"-or-later" == d.ID)
	okPlus := plus == d.Plus || (d.Plus && strings.HasSuffix(id, "-or-later"))
	okExc := exc == d.Exc
	if !listed || !okID || !okPlus || !okExc {
		c.Violation("canon:"+tx, "C06.canon", t,
			"ExtractLicenses(%q) = [%q]; expected the list's spelling of id %q, plus=%v, exception %q (parsed id=%q listed=%v plus=%v exception=%q)", tx, r, d.ID, d.Plus, d.Exc, id, listed, plus, exc)
		return r, false
	}
	return r, true
}

func judgeExtract(c *Ctx, tc *TreeCase) {
	text := string(tc.Text)
	got := c.Ext(text)
	key := "extract:" + treeKey(tc)
	if !got.Clean() {
		c.Violation(key, "C06.extract", tc, "ExtractLicenses(%q) of a valid expression returned %s", text, got)
		return
	}
	// expected set: canonical strings of the leaves that actually occur in the tree
	want := map[string]bool{}
	for _, li := range tc.Tree.Leaves(nil) {
		cs, ok := judgeCanonTerm(c, tc.Terms[li])
		if !ok && cs == "" {
			return
		}
		want[cs] = true
	}
	seen := map[string]bool{}
	for _, r := range got.List {
		if seen[r] {
			c.Violation(key+":dup", "C06.extract", tc, "ExtractLicenses(%q) = %q contains %q twice", text, got.List, r)
			return
		}
		seen[r] = true
	}
	var missing, invented []string
	for w := range want {
		if !seen[w] {
			missing = append(missing, w)
		}
	}
	for r := range seen {
		if !want[r] {
			invented = append(invented, r)
		}
	}
	if len(missing)+len(invented) > 0 {
		sort.Strings(missing)
		sort.Strings(invented)
		c.Violation(key, "C06.extract", tc, "ExtractLicenses(%q) = %q: missing %q, invented %q", text, got.List, missing, invented)
		return
	}
	// every returned string is a valid single term that extracts to itself
	for _, r := range got.List {
		if !c.Valid(r) {
			c.Violation(key+":invalid-output", "C06.roundtrip", tc, "ExtractLicenses(%q) returned %q which is not a valid expression", text, r)
			return
		}
		rr := c.Ext(r)
		if !rr.Clean() || len(rr.List) != 1 || rr.List[0] != r {
			c.Violation(key+":not-fixpoint", "C06.roundtrip", tc, "ExtractLicenses(%q) = %s, want [%q] (element of the result for %q)", r, rr, r, text)
			return
		}
	}
	// the returned list satisfies the expression
	if s := c.Sat(text, got.List); !s.Clean() || !s.OK {
		c.Violation(key+":self-satisfy", "C06.roundtrip", tc, "Satisfies(%q, ExtractLicenses(..)=%q) = %s, want true", text, got.List, s)
	}
	// the result belongs to the caller: modifying it must not change what a later call returns
	if len(got.List) > 0 && tc.Index%4 == 0 {
		orig := append([]string{}, got.List...)
		for i := range got.List {
			got.List[i] = strings.ToLower(got.List[i]) + "-modified-by-caller"
		}
		got.List = append(got.List[:0], "overwritten")
		again := c.Ext(text)
		c.Inc("result_aliasing_checks")
		if !again.Clean() || !eqStrs(again.List, orig) {
			c.Violation(key+":aliased-result", "C06.roundtrip", tc, "after the caller modified the slice returned by ExtractLicenses(%q), the same call returns %s instead of %q", text, again, orig)
			return
		}
		got.List = orig
	}
	c.CountIf(len(got.List) >= 6, "results_with_6plus_terms")
	c.CountIf(len(got.List) >= 65, "results_with_65plus_terms")
	c.Max("result_len", int64(len(got.List)))
}

func replayC06(c *Ctx, rule string, raw json.RawMessage) {
	if rule == "C06.canon" {
		var t gen.Term
		if err := json.Unmarshal(raw, &t); err != nil {
			fmt.Println("bad case:", err)
			return
		}
		judgeCanonTerm(c, t)
		return
	}
	var tc TreeCase
	if err := json.Unmarshal(raw, &tc); err != nil {
		fmt.Println("bad case:", err)
		return
	}
	judgeExtract(c, &tc)
}

func runC06(c *Ctx, phase string) {
	n := c.Pick(40000, 1000000)
	c.Meta("random expression trees as in C01 (k<=7 distinct terms of every kind incl. LicenseRef/DocumentRef under OR, repeated and re-spelled leaves such as mit/MIT, 6 shape classes, redundant parentheses and spaces) "+
		"plus every listed license id in every valid spelling as a single term; for each tree: result has no duplicates, equals the set of canonical leaf strings, every element is valid and extracts to itself, "+
		"and the result used as allowed list satisfies the expression. distinct = expression text; non-trivial = at least one operator",
		false, fmt.Sprintf("trees=%d; DNF<=%d", n, c.Pick(512, 4096)),
		"canon(t) is observed through the single-term call ExtractLicenses(text(t)) and judged against the harness' denotation (id in list casing, '+' kept, exception kept, references verbatim)",
		"X-or-later and X+ are identified: a listed X-or-later id may be reported with or without a trailing '+'")
	c.Floor("trees", int64(n/2))
	c.Floor("trees_with_ref_under_or", 50)
	c.Floor("trees_with_respelled_duplicate", 50)
	c.Floor("results_with_6plus_terms", 20)
	c.Floor("trees_with_17plus_distinct_terms", 200)
	c.Floor("results_with_65plus_terms", 50)
	c.Floor("result_aliasing_checks", 1000)
	c.Floor("canon_checks", 5000)

	// every listed id, every valid spelling, as a single term
	i := 0
	for _, id := range c.U.AllLicense {
		for _, t := range spellVariants(c.U, id, true) {
			for _, exc := range []string{"", c.U.Exceptions[i%len(c.U.Exceptions)]} {
				i++
				if !c.Mine(i) {
					continue
				}
				t.Exc = exc
				judgeCanonTerm(c, t)
			}
		}
	}
	for i := 0; i < n; i++ {
		if !c.Mine(i) {
			continue
		}
		tc := genRandomTreeK(c, "C06", i, int64(c.Pick(512, 4096)), 150) // up to 40 distinct terms: no truth table is needed here
		c.CountIf(len(tc.Terms) >= 17, "trees_with_17plus_distinct_terms")
		// make re-spelled duplicates common: one time in three add a case variant of an existing license leaf
		r := gen.NewRand(c.Seed, 0xC06, uint64(i))
		if r.Chance(1, 3) {
			for try := 0; try < 4; try++ {
				j := r.Intn(len(tc.Terms))
				if tc.Terms[j].Ref {
					continue
				}
				dup := tc.Terms[j]
				dup.Case = 1 + r.Intn(3)
				dup.CaseKey = r.U64()
				if dup.Text() == tc.Terms[j].Text() {
					continue
				}
				tc.Terms = append(tc.Terms, dup)
				tc.Leaf = append(tc.Leaf, "")
				li := len(tc.Terms) - 1
				op := "and"
				if r.Chance(1, 2) {
					op = "or"
				}
				tc.Tree = gen.Bin(op, tc.Tree, gen.LeafN(li))
				leaf := make([]string, len(tc.Terms))
				for q, t := range tc.Terms {
					leaf[q] = t.Text()
				}
				for q := range leaf {
					tc.Leaf[q] = evQS(leaf[q])
				}
				tc.Text = evQS(tc.Tree.Render(leaf, gen.RenderOpt{Paren: tc.Paren, R: r}))
				c.Inc("trees_with_respelled_duplicate")
				break
			}
		}
		c.Inc("trees")
		hasRefUnderOr := false
		var walk func(n *gen.Node, parent string)
		walk = func(n *gen.Node, parent string) {
			if n.IsLeaf() {
				if parent == "or" && tc.Terms[n.Leaf].Ref {
					hasRefUnderOr = true
				}
				return
			}
			walk(n.L, n.Op)
			walk(n.R, n.Op)
		}
		walk(tc.Tree, "")
		c.CountIf(hasRefUnderOr, "trees_with_ref_under_or")
		judgeExtract(c, tc)
		if !tc.Tree.IsLeaf() {
			c.Distinct(gen.HashStr(string(tc.Text)))
		}
		if c.WantSample() && len(tc.Terms) >= 3 {
			ex := c.Ext(string(tc.Text))
			c.Sample(map[string]any{"expression": string(tc.Text), "extracted": ex.List})
		}
	}
}
