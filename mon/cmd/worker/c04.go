package main

import (
	"encoding/json"
	"fmt"
	"strings"

	"verif/mon/internal/ev"
	"verif/mon/internal/gen"
)

// C04 — one notion of validity: errors are returned exactly for invalid input.
//
// Oracle: agreement between the three entry points on the same strings. v(s) is the verdict of
// ValidateLicenses([s]); compound(s) is generator knowledge (the string was rendered from a token
// sequence that contains an AND/OR token).

func init() { register("C04", runC04, replayC04) }

type poolStr struct {
	S        string
	Compound bool // contains an AND/OR operator token (meaningful only when valid)
	Valid    bool
	Origin   string
	Twin     int // index+1 of the pool string this one is a case-folded twin of
}

type C04Case struct {
	Kind     string  `json:"kind"` // validate | extract | satisfies
	Expr     ev.QS   `json:"expr,omitempty"`
	List     []ev.QS `json:"list"`
	NilList  bool    `json:"nil_list,omitempty"`
	Compound []bool  `json:"compound,omitempty"` // per list entry: generator says it has an AND/OR token
}

func judgeC04(c *Ctx, cs C04Case, reuse []string) {
	list := ev.Strs(cs.List)
	if cs.NilList {
		list = nil
	}
	// v() of every involved string, observed through single-element ValidateLicenses calls
	v := func(s string) bool {
		if c.Replay {
			return c.Valid(s)
		}
		return c.ValidCached(s)
	}
	switch cs.Kind {
	case "validate":
		var wantInv []string
		for _, s := range list {
			if !v(s) {
				wantInv = append(wantInv, s)
			}
		}
		arg := list
		if reuse != nil && len(list) <= cap(reuse) { // same backing array reused across calls
			arg = reuse[:len(list)]
			copy(arg, list)
		}
		got := c.Val(arg)
		c.Inc("validate_calls")
		c.CountIf(len(wantInv) >= 2, "validate_lists_with_2plus_invalid")
		if hasRepeat(wantInv) {
			c.Inc("validate_lists_with_repeated_invalid")
		}
		ok := got.Panic == "" && got.OK == (len(wantInv) == 0) && eqStrs(got.Invalid, wantInv)
		if !ok {
			c.Violation("validate:"+trunc(strings.Join(list, "|"), 80), "C04.validate", cs,
				"ValidateLicenses(%q) = %s; the single-element verdicts give (%v, %q)", list, got, len(wantInv) == 0, wantInv)
		}
	case "extract":
		e := string(cs.Expr)
		valid := v(e)
		got := c.Ext(e)
		c.Inc("extract_calls")
		c.CountIf(valid, "extract_valid")
		c.CountIf(!valid, "extract_invalid")
		switch {
		case got.Panic != "":
			c.Violation("extract-panic:"+trunc(e, 80), "C04.extract", cs, "ExtractLicenses(%q) panicked: %s", e, got.Panic)
		case got.IsErr == valid:
			c.Violation("extract:"+trunc(e, 80), "C04.extract", cs, "ExtractLicenses(%q) = %s but ValidateLicenses says valid=%v", e, got, valid)
		case got.IsErr && !got.Nil:
			c.Violation("extract-result-with-error:"+trunc(e, 80), "C04.extract", cs, "ExtractLicenses(%q) returned a non-nil slice %q together with error %q", e, got.List, got.Err)
		}
	case "satisfies":
		e := string(cs.Expr)
		causes := ""
		if !v(e) {
			causes += "E"
		}
		if len(list) == 0 {
			causes += "0"
		}
		inv, comp := false, false
		for i, a := range list {
			if !v(a) {
				inv = true
			} else if i < len(cs.Compound) && cs.Compound[i] {
				comp = true
			}
		}
		if inv {
			causes += "I"
		}
		if comp {
			causes += "C"
		}
		got := c.Sat(e, list)
		c.Inc("satisfies_calls")
		c.Inc("sat_causes_" + nz(causes, "none"))
		wantErr := causes != ""
		switch {
		case got.Panic != "":
			c.Violation("satisfies-panic:"+trunc(e, 60), "C04.satisfies", cs, "Satisfies(%q,%q) panicked: %s", e, list, got.Panic)
		case got.IsErr != wantErr:
			c.Violation("satisfies:"+causes+":"+trunc(e, 40)+"|"+trunc(strings.Join(list, "|"), 60), "C04.satisfies", cs,
				"Satisfies(%q,%q) = %s; error expected=%v (causes %q: E=invalid expression, 0=empty list, I=invalid entry, C=compound entry)", e, list, got, wantErr, causes)
		case got.IsErr && got.OK:
			c.Violation("satisfies-true-with-error:"+trunc(e, 60), "C04.satisfies", cs, "Satisfies(%q,%q) returned true together with error %q", e, list, got.Err)
		}
	}
}

func nz(s, d string) string {
	if s == "" {
		return d
	}
	return s
}

func hasOperatorToken(s string) bool {
	for _, tok := range strings.FieldsFunc(s, func(r rune) bool { return r == ' ' || r == '(' || r == ')' }) {
		if tok == "AND" || tok == "OR" {
			return true
		}
	}
	return false
}

func hasRepeat(l []string) bool {
	seen := map[string]bool{}
	for _, s := range l {
		if seen[s] {
			return true
		}
		seen[s] = true
	}
	return false
}

func eqStrs(a, b []string) bool {
	if len(a) != len(b) {
		return false
	}
	for i := range a {
		if a[i] != b[i] {
			return false
		}
	}
	return true
}

func replayC04(c *Ctx, rule string, raw json.RawMessage) {
	var cs C04Case
	if err := json.Unmarshal(raw, &cs); err != nil {
		fmt.Println("bad case:", err)
		return
	}
	judgeC04(c, cs, nil)
}

// buildPool creates this shard's pool of strings with known token structure.
func buildPool(c *Ctx, n int) []poolStr {
	u := c.U
	var pool []poolStr
	add := func(s string, compound bool, origin string) {
		pool = append(pool, poolStr{S: s, Compound: compound, Origin: origin})
	}
	hasOp := func(kinds []int) bool {
		for _, k := range kinds {
			if k == gen.KAnd || k == gen.KOr {
				return true
			}
		}
		return false
	}
	for _, s := range []string{"", " ", "   ", "()", "( )", "MIT", "(MIT)", "((MIT))", " MIT ", "mit", "MIT AND ISC", "(MIT OR ISC)", "MIT OR", "AND", "LicenseRef-a", "DocumentRef-a:LicenseRef-b", "DocumentRef-a:", "GPL-2.0+", "GPL-2.0-or-later WITH Bison-exception-2.2", "Bison-exception-2.2", "FOO", "\xff", "MIT\tAND ISC"} {
		add(s, strings.Contains(s, " AND ") || strings.Contains(s, " OR "), "fixed")
	}
	for i := 0; len(pool) < n; i++ {
		r := gen.NewRand(c.Seed, 0xC04, uint64(c.Shard), uint64(i))
		switch r.Intn(6) {
		case 0, 1: // generator-valid expression (single term or compound)
			tc := genRandomTree(c, fmt.Sprintf("C04-%d", c.Shard), i, 128)
			kinds, lex := u.ASTTokens(tc.Tree, tc.Terms, r)
			add(gen.RenderTokens(kinds, lex, r.Chance(1, 4), r), hasOp(kinds), "valid-expression")
		case 2: // single term, sometimes parenthesised
			t := u.RandomTerm(r)
			s := t.Text()
			if r.Chance(1, 3) {
				s = "(" + s + ")"
			}
			add(s, false, "single-term")
		case 3: // short token sequence (mostly invalid)
			m := 1 + r.Intn(5)
			kinds := make([]int, m)
			lex := make([]string, m)
			for j := range kinds {
				kinds[j] = r.Intn(gen.NumKinds)
				lex[j] = u.Lexeme(kinds[j], r)
			}
			add(gen.RenderTokens(kinds, lex, r.Chance(1, 3), r), hasOp(kinds), "token-sequence")
		case 4: // token prefix / one-token mutation of a valid expression
			tc := genRandomTree(c, fmt.Sprintf("C04m-%d", c.Shard), i, 128)
			kinds, lex := u.ASTTokens(tc.Tree, tc.Terms, r)
			if r.Chance(1, 2) && len(kinds) > 1 {
				p := 1 + r.Intn(len(kinds)-1)
				kinds, lex = kinds[:p], lex[:p]
			} else {
				p := r.Intn(len(kinds))
				k := r.Intn(gen.NumKinds)
				kinds = append(append(append([]int{}, kinds[:p]...), k), kinds[p:]...)
				lex = append(append(append([]string{}, lex[:p]...), u.Lexeme(k, r)), lex[p:]...)
			}
			add(gen.RenderTokens(kinds, lex, false, r), hasOp(kinds), "mutated-expression")
		default: // listed id in some case
			id := r.Pick(u.AllLicense)
			add(id, false, "listed-id")
		}
	}
	// case-folded twins: the same text in another letter case. Listed ids are case-insensitive, but operators and the
	// LicenseRef-/DocumentRef- prefixes are not, so a twin often differs in validity from its original.
	base := len(pool)
	for i := 0; i < base; i += 3 {
		p := pool[i]
		for _, tw := range []string{strings.ToLower(p.S), strings.ToUpper(p.S)} {
			if tw != p.S {
				// upper-casing turns a lower-case "or"/"and" into a real operator (and lower-casing does the reverse), so the
				// twin's compound flag is recomputed from its own text: in a valid string a token AND / OR delimited by
				// spaces or parentheses is an operator
				pool = append(pool, poolStr{S: tw, Compound: hasOperatorToken(tw), Origin: "case-twin", Twin: i + 1})
			}
		}
	}
	// line-end and blank twins: the same text followed / preceded by "\n", "\r\n", "\t", "\v", "\f", NBSP or a plain space.
	// Only the plain space is skipped by the scanner; whatever the library decides, all entry points must decide the same.
	base2 := len(pool)
	for i := 0; i < base2; i += 5 {
		p := pool[i]
		if p.Twin > 0 || p.S == "" {
			continue
		}
		for _, tw := range []string{p.S + "\n", p.S + "\r\n", "\t" + p.S, p.S + " ", " " + p.S, p.S + "\t", p.S + "\u00a0", "\ufeff" + p.S, p.S + "\x00"} {
			pool = append(pool, poolStr{S: tw, Compound: p.Compound, Origin: "blank-twin"})
		}
	}
	for i := range pool {
		pool[i].Valid = c.Valid(pool[i].S)
		c.CountIf(pool[i].Valid, "pool_valid")
		c.CountIf(!pool[i].Valid, "pool_invalid")
		c.CountIf(pool[i].Valid && pool[i].Compound, "pool_valid_compound")
	}
	return pool
}

func runC04(c *Ctx, phase string) {
	nPool := c.Pick(24000, 200000) / c.NShards
	nCases := c.Pick(400000, 6000000) / c.NShards
	c.Meta("a pool of strings with known token structure (generator-valid expressions, single terms, random token sequences, token prefixes and one-token mutations of valid expressions, fixed edge strings) "+
		"is fed to all three entry points: ValidateLicenses over lists of 0..12 pool entries with repeats; ExtractLicenses on every pool string; Satisfies with a pool string as expression and lists of 0..8 entries "+
		"(valid single terms, invalid entries and compound entries placed at every position in turn). distinct = (function, arguments); a case is non-trivial when its list has >=1 entry or it is an extract call",
		false, fmt.Sprintf("pool=%d strings; cases=%d", nPool*c.NShards, nCases*c.NShards),
		"v(s) is the library's own verdict ValidateLicenses([s]) (C05 compares it with an independent grammar); compound(s) is generator knowledge")
	for _, k := range []string{"sat_causes_none", "sat_causes_E", "sat_causes_0", "sat_causes_I", "sat_causes_C", "sat_causes_IC", "sat_causes_EI"} {
		c.Floor(k, 50)
	}
	c.Floor("validate_lists_with_2plus_invalid", 100)
	c.Floor("validate_lists_with_repeated_invalid", 20)
	c.Floor("extract_valid", 500)
	c.Floor("extract_invalid", 500)
	c.Floor("pool_valid_compound", 100)
	c.Floor("validate_lists_with_case_twins", 1000)
	c.Floor("validate_long_lists", 1000)
	c.Floor("satisfies_long_lists", 1000)
	c.Floor("big_strings", 10)
	c.Floor("validate_very_long_lists", 4)

	// large inputs: the three entry points must agree on them as on small ones
	{
		for bi, b := range bigStringsTier(c.U, gen.NewRand(c.Seed, 0xC04B), c.Thorough()) {
			if !c.Mine(bi) {
				continue
			}
			judgeC04(c, C04Case{Kind: "extract", Expr: ev.QS(b.S)}, nil)
			judgeC04(c, C04Case{Kind: "satisfies", Expr: ev.QS(b.S), List: []ev.QS{"MIT", "ISC"}, Compound: []bool{false, false}}, nil)
			judgeC04(c, C04Case{Kind: "satisfies", Expr: "MIT", List: []ev.QS{"ISC", ev.QS(b.S)}, Compound: []bool{false, b.Compound}}, nil)
			judgeC04(c, C04Case{Kind: "validate", List: []ev.QS{"MIT", ev.QS(b.S), "FOO", ev.QS(b.S)}}, nil)
			c.Inc("big_strings")
		}
		// long ValidateLicenses lists with many distinct invalid entries: exact order and multiplicity
		r := gen.NewRand(c.Seed, 0xC04C)
		for ni, n := range []int{512, 777, 2000, 3001} {
			if !c.Mine(ni + 5) {
				continue
			}
			list := make([]string, n)
			for j := range list {
				switch {
				case j%4 == 1:
					list[j] = fmt.Sprintf("unknown-%d", r.Intn(n/3))
				case j%9 == 2:
					list[j] = "MIT AND"
				default:
					list[j] = c.U.ActPlain[r.Intn(len(c.U.ActPlain))]
				}
			}
			for rep := 0; rep < 2; rep++ {
				judgeC04(c, C04Case{Kind: "validate", List: ev.QSs(list)}, nil)
			}
			c.Inc("validate_very_long_lists")
		}
	}
	pool := buildPool(c, nPool)
	var valid, invalid, singles, compounds []int
	for i, p := range pool {
		switch {
		case !p.Valid:
			invalid = append(invalid, i)
		case p.Compound:
			valid = append(valid, i)
			compounds = append(compounds, i)
		default:
			valid = append(valid, i)
			singles = append(singles, i)
		}
	}
	var twins []int
	for i, p := range pool {
		if p.Twin > 0 {
			twins = append(twins, i)
		}
	}
	if len(singles) == 0 || len(invalid) == 0 || len(compounds) == 0 {
		c.Note("pool lacks a class: singles=%d invalid=%d compounds=%d", len(singles), len(invalid), len(compounds))
		return
	}
	// ExtractLicenses on every pool string
	for _, p := range pool {
		cs := C04Case{Kind: "extract", Expr: ev.QS(p.S)}
		judgeC04(c, cs, nil)
		c.Distinct(gen.HashStr("ext", p.S))
	}
	reuse := make([]string, 0, 160)
	for i := 0; i < nCases; i++ {
		r := gen.NewRand(c.Seed, 0xC044, uint64(c.Shard), uint64(i))
		if r.Chance(1, 3) {
			// ValidateLicenses on a list with repeats
			n := r.Intn(13)
			if r.Chance(1, 20) {
				n = 13 + r.Intn(140) // long lists: chunked / parallel / indexed implementations have thresholds and remainders
				c.Inc("validate_long_lists")
			}
			list := make([]string, n)
			for j := range list {
				switch {
				case j > 0 && r.Chance(1, 4):
					list[j] = list[r.Intn(j)]
				case r.Chance(1, 3):
					list[j] = pool[invalid[r.Intn(len(invalid))]].S
				default:
					list[j] = pool[r.Intn(len(pool))].S
				}
			}
			if n >= 2 && r.Chance(1, 3) && len(twins) > 0 {
				// a string and its case-folded twin in the same list, in either order
				t := twins[r.Intn(len(twins))]
				a, b := r.Intn(n), r.Intn(n)
				if a != b {
					list[a], list[b] = pool[t].S, pool[pool[t].Twin-1].S
					c.Inc("validate_lists_with_case_twins")
				}
			}
			if n > 12 && r.Chance(1, 2) {
				// an invalid entry in the last few positions (and only there)
				for j := range list {
					if !c.ValidCached(list[j]) {
						list[j] = pool[valid[r.Intn(len(valid))]].S
					}
				}
				list[n-1-r.Intn(3)] = pool[invalid[r.Intn(len(invalid))]].S
			}
			cs := C04Case{Kind: "validate", List: ev.QSs(list), NilList: n == 0 && r.Chance(1, 2)}
			if list == nil {
				cs.List = []ev.QS{}
			}
			judgeC04(c, cs, reuse)
			if n > 0 {
				c.Distinct(gen.HashStr("val", strings.Join(list, "\x00")))
			}
			if c.WantSample() && n >= 3 {
				c.Sample(cs)
			}
			continue
		}
		// Satisfies
		var e poolStr
		if r.Chance(1, 4) {
			e = pool[invalid[r.Intn(len(invalid))]]
		} else {
			e = pool[valid[r.Intn(len(valid))]]
		}
		n := r.Intn(9)
		if r.Chance(1, 12) {
			n = 0
		} else if r.Chance(1, 25) {
			n = 9 + r.Intn(120)
			c.Inc("satisfies_long_lists")
		}
		list := make([]string, n)
		comp := make([]bool, n)
		for j := range list {
			p := pool[singles[r.Intn(len(singles))]]
			list[j], comp[j] = p.S, false
		}
		if n > 0 {
			// place an invalid and/or a compound entry at a chosen position
			mode := r.Intn(5)
			if mode == 1 || mode == 3 {
				j := r.Intn(n)
				list[j], comp[j] = pool[invalid[r.Intn(len(invalid))]].S, false
			}
			if mode == 2 || mode == 3 {
				j := r.Intn(n)
				p := pool[compounds[r.Intn(len(compounds))]]
				if !(mode == 3 && n == 1) {
					list[j], comp[j] = p.S, true
				}
			}
			if mode == 3 && n >= 2 { // make sure both kinds are present
				list[0], comp[0] = pool[invalid[r.Intn(len(invalid))]].S, false
				p := pool[compounds[r.Intn(len(compounds))]]
				list[n-1], comp[n-1] = p.S, true
			}
		}
		cs := C04Case{Kind: "satisfies", Expr: ev.QS(e.S), List: ev.QSs(list), Compound: comp, NilList: n == 0 && r.Chance(1, 2)}
		if cs.List == nil {
			cs.List = []ev.QS{}
		}
		judgeC04(c, cs, nil)
		if n > 0 {
			c.Distinct(gen.HashStr("sat", e.S, strings.Join(list, "\x00")))
		}
		if c.WantSample() && n >= 2 && i%50 == 0 {
			c.Sample(cs)
		}
	}
}
