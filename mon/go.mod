module verif/mon

go 1.21

require github.com/github/go-spdx/v2 v2.0.0

replace github.com/github/go-spdx/v2 => /repo
