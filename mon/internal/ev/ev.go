// Package ev holds the records exchanged between worker children and the orchestrator,
// and the replay-file format. It does not import the library under check.
package ev

import (
	"encoding/json"
	"strconv"
)

// QS is a byte string that survives JSON: it is stored as the Go-quoted ASCII form of the
// bytes (so NUL, invalid UTF-8 etc. round-trip exactly and stay readable).
type QS string

func (q QS) MarshalJSON() ([]byte, error) {
	return json.Marshal(strconv.QuoteToASCII(string(q)))
}

func (q *QS) UnmarshalJSON(b []byte) error {
	var s string
	if err := json.Unmarshal(b, &s); err != nil {
		return err
	}
	u, err := strconv.Unquote(s)
	if err != nil {
		return err
	}
	*q = QS(u)
	return nil
}

// QSs converts a string slice (nil stays nil).
func QSs(l []string) []QS {
	if l == nil {
		return nil
	}
	r := make([]QS, len(l))
	for i, s := range l {
		r[i] = QS(s)
	}
	return r
}

// Strs converts back.
func Strs(l []QS) []string {
	if l == nil {
		return nil
	}
	r := make([]string, len(l))
	for i, s := range l {
		r[i] = string(s)
	}
	return r
}

// Event is one JSONL record written by a worker.
type Event struct {
	T string `json:"t"` // viol | stat | sample | meta | floor | note | done

	// viol
	Key    string          `json:"key,omitempty"`
	Rule   string          `json:"rule,omitempty"`
	Detail string          `json:"detail,omitempty"`
	Case   json.RawMessage `json:"case,omitempty"`
	Shard  int             `json:"shard,omitempty"`
	Count  int64           `json:"count,omitempty"` // viol: further occurrences of the same key not written out

	// stat
	Evals    int64            `json:"evals,omitempty"`
	Counters map[string]int64 `json:"counters,omitempty"`

	// sample
	Sample json.RawMessage `json:"sample,omitempty"`

	// meta (shard 0 only)
	RuleText    string   `json:"rule_text,omitempty"`
	Assumptions []string `json:"assumptions,omitempty"`
	Exhaustive  bool     `json:"exhaustive,omitempty"`
	Bounds      string   `json:"bounds,omitempty"`

	// floor (shard 0 only): merged counter Name must be >= Min, else the run is inconclusive
	Name string `json:"name,omitempty"`
	Min  int64  `json:"min,omitempty"`

	// note: free text carried into the evidence file
	Text string `json:"text,omitempty"`
}

// Replay is the content of a replay file.
type Replay struct {
	Property string          `json:"property"`
	Key      string          `json:"key"`
	Rule     string          `json:"rule"`
	Detail   string          `json:"detail"`
	Seed     int64           `json:"seed"`
	Tier     string          `json:"tier"`
	Case     json.RawMessage `json:"case"`
}

// Journal layout (mmap'ed file shared between a worker and the orchestrator).
const (
	JournalSize   = 1 << 20
	JStateOff     = 0  // uint32: 0 idle, 1 call in flight
	JFnOff        = 4  // uint32: function id
	JSeqOff       = 8  // uint64: calls started
	JNArgsOff     = 16 // uint32
	JTruncOff     = 20 // uint32: 1 if some argument bytes were not journalled
	JPayloadOff   = 24
	FnSatisfies   = 1
	FnExtract     = 2
	FnValidate    = 3
	FnNoteOnly    = 9 // payload is a single descriptive string (huge inputs)
	JournalArgCap = 64 << 10
)
