package gen

import (
	"sort"
	"strings"

	"github.com/github/go-spdx/v2/spdxexp/spdxlicenses"
)

// Pos is one position of an id in the shipped range table.
type Pos struct{ Family, Step, Index int }

// Universe is everything the generators know about the tree under check. It is read from the
// exported tables of that tree at run time, so a regenerated list changes the workload with it.
type Universe struct {
	Active, Deprecated, Exceptions []string
	ActiveSet, DepSet, ExcSet      map[string]bool
	FoldSet                        map[string]string // lower-case listed license id -> listed spelling (first wins)
	Ranges                         [][][]string
	Pos                            map[string][]Pos // every position of every table entry

	ActPlain    []string // active ids not ending in -only / -or-later
	ListedOnly  []string // active ids ending in -only
	ListedLater []string // active ids ending in -or-later
	SynthBase   []string // ActPlain ids X for which X-only and X-or-later are both unlisted
	DepPlain    []string // deprecated ids without '+' whose X-or-later is not active
	DepFold     []string // deprecated ids without '+' whose X-or-later is active ("foldable": X+ is read as X-or-later)
	DepPlusIDs  []string // deprecated ids that contain '+'
	AllLicense  []string // Active ++ Deprecated
	InTable     []string // listed ids that have at least one table position
	NotInTable  []string // listed license ids with no table position (after stripping -or-later)
	// UnlistedStems are unknown ids chosen to be hostile: U is on no list, but U-or-later or U-only is
	// (e.g. GFDL-1.1-invariants). By the grammar they are unknown ids like any other.
	UnlistedStems []string
	// Unknown is UnknownIDs minus anything that (up to letter case) is on a list of the tree under check
	Unknown []string
}

// Load reads the tables of the tree under check.
func Load() *Universe {
	u := &Universe{
		Active:     spdxlicenses.GetLicenses(),
		Deprecated: spdxlicenses.GetDeprecated(),
		Exceptions: spdxlicenses.GetExceptions(),
		Ranges:     spdxlicenses.LicenseRanges(),
		ActiveSet:  map[string]bool{}, DepSet: map[string]bool{}, ExcSet: map[string]bool{},
		FoldSet: map[string]string{},
		Pos:     map[string][]Pos{},
	}
	for _, x := range u.Active {
		u.ActiveSet[x] = true
	}
	for _, x := range u.Deprecated {
		u.DepSet[x] = true
	}
	for _, x := range u.Exceptions {
		u.ExcSet[x] = true
	}
	for i, fam := range u.Ranges {
		for j, step := range fam {
			for k, id := range step {
				u.Pos[id] = append(u.Pos[id], Pos{i, j, k})
			}
		}
	}
	for _, x := range u.Active {
		switch {
		case strings.HasSuffix(x, "-only"):
			u.ListedOnly = append(u.ListedOnly, x)
		case strings.HasSuffix(x, "-or-later"):
			u.ListedLater = append(u.ListedLater, x)
		default:
			u.ActPlain = append(u.ActPlain, x)
			if !u.Listed(x+"-only") && !u.Listed(x+"-or-later") {
				u.SynthBase = append(u.SynthBase, x)
			}
		}
	}
	for _, x := range u.Deprecated {
		switch {
		case strings.Contains(x, "+"):
			u.DepPlusIDs = append(u.DepPlusIDs, x)
		case u.ActiveSet[x+"-or-later"]:
			u.DepFold = append(u.DepFold, x)
		default:
			u.DepPlain = append(u.DepPlain, x)
		}
	}
	seenStem := map[string]bool{}
	for _, x := range u.Active {
		for _, suf := range []string{"-or-later", "-only"} {
			if st := strings.TrimSuffix(x, suf); st != x && !u.Listed(st) && !seenStem[st] {
				seenStem[st] = true
				u.UnlistedStems = append(u.UnlistedStems, st)
			}
		}
	}
	u.AllLicense = append(append([]string{}, u.Active...), u.Deprecated...)
	defer func() {
		// a synthesised suffix stacked on a synthesised suffix: X-or-later is not a listed id, so X-or-later-only is unknown
		for i, x := range u.SynthBase {
			if i%40 == 0 {
				u.Unknown = append(u.Unknown, x+"-or-later-only", x+"-only-or-later", x+"-only-only", x+"-or-later-or-later")
			}
		}
		for _, x := range UnknownIDs {
			if !u.ListedFold(x) {
				u.Unknown = append(u.Unknown, x)
			}
		}
	}()
	for _, x := range u.AllLicense {
		lx := strings.ToLower(x)
		if _, ok := u.FoldSet[lx]; !ok {
			u.FoldSet[lx] = x
		}
		if strings.Contains(x, "+") {
			continue
		}
		if len(u.Pos[StripLater(x)]) > 0 {
			u.InTable = append(u.InTable, x)
		} else {
			u.NotInTable = append(u.NotInTable, x)
		}
	}
	return u
}

// Listed reports whether x is (exactly) on the active, deprecated or exception list.
func (u *Universe) Listed(x string) bool { return u.ActiveSet[x] || u.DepSet[x] || u.ExcSet[x] }

// ListedFold reports whether x equals a listed id up to letter case.
func (u *Universe) ListedFold(x string) bool {
	lx := strings.ToLower(x)
	if _, ok := u.FoldSet[lx]; ok {
		return true
	}
	for _, e := range u.Exceptions {
		if strings.ToLower(e) == lx {
			return true
		}
	}
	return false
}

// StripLater removes one trailing "-or-later".
func StripLater(id string) string { return strings.TrimSuffix(id, "-or-later") }

// TablePos returns the table positions that decide the family rule for a listed id
// ('-or-later' counts as '+', so the position is that of the id without the suffix).
func (u *Universe) TablePos(id string) []Pos { return u.Pos[StripLater(id)] }

// FamilyMembers returns every listed id that sits (after stripping -or-later) in family f, sorted.
func (u *Universe) FamilyMembers(f int) []string {
	seen := map[string]bool{}
	var out []string
	for _, x := range u.AllLicense {
		if strings.Contains(x, "+") {
			continue
		}
		for _, p := range u.TablePos(x) {
			if p.Family == f && !seen[x] {
				seen[x] = true
				out = append(out, x)
			}
		}
	}
	sort.Strings(out)
	return out
}

// Stem splits an id into (stem, version text, suffix) where version = digits(.digits)*[a-z]? is the
// first dash-separated component that starts with a digit and looks like a version. ok=false when
// the id has no such component.
func Stem(id string) (stem, ver, suffix string, ok bool) {
	parts := strings.Split(id, "-")
	for i := 1; i < len(parts); i++ {
		if isVersion(parts[i]) {
			return strings.Join(parts[:i], "-"), parts[i], strings.Join(parts[i+1:], "-"), true
		}
	}
	return id, "", "", false
}

func isVersion(s string) bool {
	if s == "" || s[0] < '0' || s[0] > '9' {
		return false
	}
	n := len(s)
	if c := s[n-1]; c >= 'a' && c <= 'z' {
		n--
	}
	if n == 0 {
		return false
	}
	prevDot := true
	for i := 0; i < n; i++ {
		c := s[i]
		switch {
		case c >= '0' && c <= '9':
			prevDot = false
		case c == '.':
			if prevDot {
				return false
			}
			prevDot = true
		default:
			return false
		}
	}
	return !prevDot
}

// CmpVersion orders two version texts: numeric component-wise, a missing component counts as
// lower ("2.0" < "2.0.1"), a trailing letter breaks ties ("1.3a" < "1.3c", "1.3" < "1.3a").
func CmpVersion(a, b string) int {
	na, la := splitVer(a)
	nb, lb := splitVer(b)
	for i := 0; i < len(na) || i < len(nb); i++ {
		if i >= len(na) {
			return -1
		}
		if i >= len(nb) {
			return 1
		}
		if na[i] != nb[i] {
			if na[i] < nb[i] {
				return -1
			}
			return 1
		}
	}
	switch {
	case la < lb:
		return -1
	case la > lb:
		return 1
	}
	return 0
}

func splitVer(s string) ([]int, byte) {
	var letter byte
	if n := len(s); n > 0 && s[n-1] >= 'a' && s[n-1] <= 'z' {
		letter = s[n-1]
		s = s[:n-1]
	}
	var nums []int
	for _, p := range strings.Split(s, ".") {
		// "01" vs "1": compare numerically but keep width as a later tie-break through the text
		v := 0
		for i := 0; i < len(p); i++ {
			v = v*10 + int(p[i]-'0')
		}
		nums = append(nums, v)
	}
	return nums, letter
}
