package gen

import (
	"strings"
)

// Token kinds of the C05 alphabet.
const (
	KAct    = iota // active id without -only/-or-later suffix
	KLOnly         // listed -only id
	KLLater        // listed -or-later id
	KSOnly         // synthesised X-only   (X active, suffix forms unlisted)
	KSLater        // synthesised X-or-later
	KDep           // deprecated id (no '+' in it) that is not foldable
	KFold          // foldable deprecated id X (X-or-later is active, so X+ is read as one id)
	KExc           // exception id
	KUnk           // unknown id
	KLRef          // LicenseRef-x
	KDRef          // DocumentRef-x
	KColon         // :
	KLP            // (
	KRP            // )
	KAnd           // AND
	KOr            // OR
	KWith          // WITH
	KPlus          // + abutting the previous token
	KSPlus         // + preceded by a space
	KLowOp         // and / or / with in lower case
	NumKinds
)

var KindNames = [NumKinds]string{"ACT", "LONLY", "LLATER", "SONLY", "SLATER", "DEP", "FOLD", "EXC", "UNK", "LREF", "DREF",
	"COLON", "LP", "RP", "AND", "OR", "WITH", "PLUS", "SPLUS", "LOWOP"}

func IsLicenseKind(k int) bool { return k >= KAct && k <= KFold }

// UnknownIDs never start with AND/OR/WITH, are not listed, and are not a listed id plus suffix.
var UnknownIDs = []string{"FOO", "Bar-2.0", "not-a-license", "MIT-9.9", "zzz", "GPL-9.0", "X.Y", "Apache-3.0", "l", "9",
	// suffixes and prefixes are matched exactly (C09): in another letter case they make an unknown id
	"MIT-ONLY", "Apache-2.0-OR-LATER", "mit-Only", "Zlib-Or-Later", "licenseref-x", "LICENSEREF-X", "documentref-d", "Licenseref-a"}

var lowOps = []string{"and", "or", "with", "And", "Or", "With"}

// Lexeme instantiates a token kind with a concrete text drawn from the real lists. Listed ids get a
// random letter case one time in four.
func (u *Universe) Lexeme(k int, r *Rand) string {
	cm := func(s string) string {
		if r.Chance(1, 4) {
			return mutateCase(s, 1+r.Intn(3), r.U64())
		}
		return s
	}
	switch k {
	case KAct:
		return cm(r.Pick(u.ActPlain))
	case KLOnly:
		return cm(r.Pick(u.ListedOnly))
	case KLLater:
		return cm(r.Pick(u.ListedLater))
	case KSOnly:
		if r.Chance(1, 8) { // every ACTIVE id takes the suffix (C05 / C08), also one that already ends in a listed suffix
			return cm(r.Pick(append(append([]string{}, u.ListedOnly...), u.ListedLater...))) + "-only"
		}
		return cm(r.Pick(u.SynthBase)) + "-only"
	case KSLater:
		if r.Chance(1, 8) {
			return cm(r.Pick(append(append([]string{}, u.ListedOnly...), u.ListedLater...))) + "-or-later"
		}
		return cm(r.Pick(u.SynthBase)) + "-or-later"
	case KDep:
		return cm(r.Pick(u.DepPlain))
	case KFold:
		return cm(r.Pick(u.DepFold))
	case KExc:
		return cm(r.Pick(u.Exceptions))
	case KUnk:
		return r.Pick(u.Unknown)
	case KLRef:
		return "LicenseRef-" + r.Pick(RefNames)
	case KDRef:
		return "DocumentRef-" + r.Pick(RefNames)
	case KColon:
		return ":"
	case KLP:
		return "("
	case KRP:
		return ")"
	case KAnd:
		return "AND"
	case KOr:
		return "OR"
	case KWith:
		return "WITH"
	case KPlus, KSPlus:
		return "+"
	case KLowOp:
		return r.Pick(lowOps)
	}
	return "?"
}

// RenderTokens joins lexemes. loose: 1..3 spaces between tokens (exactly one when r is nil);
// tight: no space on either side of ( ) and : . KPlus always abuts the previous token, KSPlus always
// has at least one space before it.
func RenderTokens(kinds []int, lex []string, tight bool, r *Rand) string {
	var b strings.Builder
	for i, k := range kinds {
		if i > 0 {
			sep := " "
			if r != nil {
				sep = strings.Repeat(" ", 1+r.Intn(3))
			}
			pk := kinds[i-1]
			switch {
			case k == KPlus:
				sep = ""
			case k == KSPlus:
				// keep the space
			case tight && (k == KLP || k == KRP || k == KColon || pk == KLP || pk == KRP || pk == KColon):
				sep = ""
			}
			b.WriteString(sep)
		} else if k == KSPlus {
			b.WriteString(" ")
		}
		b.WriteString(lex[i])
	}
	return b.String()
}

// Verdicts of the reference recogniser.
const (
	RefReject = iota
	RefAccept
	RefUnspecified // the given properties disagree or are silent: executed but not judged
)

// Recognise is the reference recogniser for C05, written from the grammar in the property
// statement:
//
//	expr := and {OR and};  and := atom {AND atom}
//	atom := '(' expr ')' | [DREF ':'] LREF | license ['+'] [WITH EXC]
//
// It works on token kinds only and shares no code with the library.
func Recognise(kinds []int) int {
	for i, k := range kinds {
		if k == KFold && i+2 < len(kinds)+0 && kinds[i+1] == KPlus && kinds[i+2] == KPlus {
			// "AGPL-3.0++": C05's grammar rejects, C08's interchangeability with the valid
			// "AGPL-3.0-or-later+" accepts. Not judged.
			return RefUnspecified
		}
	}
	p := &recog{k: kinds}
	if p.expr() && p.i == len(kinds) {
		return RefAccept
	}
	return RefReject
}

type recog struct {
	k []int
	i int
}

func (p *recog) peek() int {
	if p.i < len(p.k) {
		return p.k[p.i]
	}
	return -1
}

func (p *recog) expr() bool {
	if !p.and() {
		return false
	}
	for p.peek() == KOr {
		p.i++
		if !p.and() {
			return false
		}
	}
	return true
}

func (p *recog) and() bool {
	if !p.atom() {
		return false
	}
	for p.peek() == KAnd {
		p.i++
		if !p.atom() {
			return false
		}
	}
	return true
}

func (p *recog) atom() bool {
	switch k := p.peek(); {
	case k == KLP:
		p.i++
		if !p.expr() {
			return false
		}
		if p.peek() != KRP {
			return false
		}
		p.i++
		return true
	case k == KDRef:
		p.i++
		if p.peek() != KColon {
			return false
		}
		p.i++
		if p.peek() != KLRef {
			return false
		}
		p.i++
		return true
	case k == KLRef:
		p.i++
		return true
	case IsLicenseKind(k):
		p.i++
		if p.peek() == KPlus {
			p.i++
		}
		if p.peek() == KWith {
			p.i++
			if p.peek() != KExc {
				return false
			}
			p.i++
		}
		return true
	}
	return false
}

// Token is one element of a generated token sequence.
type Token struct {
	Kind int
	Lex  string
}

// TermTokens converts a term into tokens (for building near-valid sequences).
func (u *Universe) ASTTokens(n *Node, terms []Term, r *Rand) ([]int, []string) {
	var kinds []int
	var lex []string
	var walk func(n *Node, parent string)
	emitTerm := func(t Term) {
		if t.Ref {
			if t.DocRef != "" {
				kinds = append(kinds, KDRef, KColon)
				lex = append(lex, "DocumentRef-"+t.DocRef, ":")
			}
			kinds = append(kinds, KLRef)
			lex = append(lex, "LicenseRef-"+t.LicRef)
			return
		}
		k, id, plus := u.KindOfTerm(t)
		kinds = append(kinds, k)
		lex = append(lex, id)
		if plus {
			kinds = append(kinds, KPlus)
			lex = append(lex, "+")
		}
		if t.Exc != "" {
			kinds = append(kinds, KWith, KExc)
			lex = append(lex, "WITH", mutateCase(t.Exc, t.Case, t.CaseKey+1))
		}
	}
	walk = func(n *Node, parent string) {
		if n.IsLeaf() {
			emitTerm(terms[n.Leaf])
			return
		}
		need := (n.Op == "or" && parent == "and") || (parent != "" && r.Chance(1, 5))
		if need {
			kinds = append(kinds, KLP)
			lex = append(lex, "(")
		}
		walk(n.L, n.Op)
		if n.Op == "and" {
			kinds = append(kinds, KAnd)
			lex = append(lex, "AND")
		} else {
			kinds = append(kinds, KOr)
			lex = append(lex, "OR")
		}
		walk(n.R, n.Op)
		if need {
			kinds = append(kinds, KRP)
			lex = append(lex, ")")
		}
	}
	walk(n, "")
	return kinds, lex
}

// KindOfTerm maps a license term to its token kind, id lexeme and whether a separate '+' token follows.
func (u *Universe) KindOfTerm(t Term) (kind int, lexeme string, plusTok bool) {
	id := t.ID
	if i := strings.IndexByte(id, '+'); i >= 0 { // deprecated "GPL-2.0+": foldable id and a '+' token
		return KFold, mutateCase(id[:i], t.Case, t.CaseKey), true
	}
	base := mutateCase(id, t.Case, t.CaseKey)
	switch t.Spell {
	case SpOnly:
		return KSOnly, base + "-only", false
	case SpLater:
		return KSLater, base + "-or-later", false
	case SpLaterPlus:
		return KSLater, base + "-or-later", true
	case SpOnlyPlus:
		return KSOnly, base + "-only", true
	}
	plusTok = t.Spell == SpPlus
	switch {
	case u.ActiveSet[id] && strings.HasSuffix(id, "-only"):
		kind = KLOnly
	case u.ActiveSet[id] && strings.HasSuffix(id, "-or-later"):
		kind = KLLater
	case u.ActiveSet[id]:
		kind = KAct
	case u.ActiveSet[id+"-or-later"]:
		kind = KFold
	default:
		kind = KDep
	}
	return kind, base, plusTok
}
