package gen

// Rand is a small deterministic PRNG (splitmix64). Its output for a seed does not depend on
// the Go version, so a case index + VERIF_SEED always regenerates the same case.
type Rand struct{ s uint64 }

// Mix hashes several integers into one seed.
func Mix(vs ...uint64) uint64 {
	h := uint64(0x9e3779b97f4a7c15)
	for _, v := range vs {
		h ^= v + 0x9e3779b97f4a7c15 + (h << 6) + (h >> 2)
		h = (h ^ (h >> 30)) * 0xbf58476d1ce4e5b9
		h = (h ^ (h >> 27)) * 0x94d049bb133111eb
		h ^= h >> 31
	}
	return h
}

// HashStr is FNV-1a 64.
func HashStr(ss ...string) uint64 {
	h := uint64(14695981039346656037)
	for _, s := range ss {
		for i := 0; i < len(s); i++ {
			h ^= uint64(s[i])
			h *= 1099511628211
		}
		h ^= 0xff
		h *= 1099511628211
	}
	return h
}

func NewRand(vs ...uint64) *Rand { return &Rand{s: Mix(vs...)} }

func (r *Rand) U64() uint64 {
	r.s += 0x9e3779b97f4a7c15
	z := r.s
	z = (z ^ (z >> 30)) * 0xbf58476d1ce4e5b9
	z = (z ^ (z >> 27)) * 0x94d049bb133111eb
	return z ^ (z >> 31)
}

// Intn returns a value in [0,n). n must be > 0.
func (r *Rand) Intn(n int) int { return int(r.U64() % uint64(n)) }

// Bool returns true with probability num/den.
func (r *Rand) Chance(num, den int) bool { return r.Intn(den) < num }

func (r *Rand) Pick(l []string) string { return l[r.Intn(len(l))] }

// Perm returns a permutation of 0..n-1.
func (r *Rand) Perm(n int) []int {
	p := make([]int, n)
	for i := range p {
		p[i] = i
	}
	for i := n - 1; i > 0; i-- {
		j := r.Intn(i + 1)
		p[i], p[j] = p[j], p[i]
	}
	return p
}
