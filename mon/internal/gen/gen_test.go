package gen

import "testing"

func TestRecognise(t *testing.T) {
	acc := [][]int{
		{KAct}, {KAct, KPlus}, {KFold, KPlus}, {KAct, KWith, KExc}, {KAct, KPlus, KWith, KExc},
		{KLP, KAct, KRP}, {KLP, KLP, KAct, KRP, KRP}, {KAct, KAnd, KAct}, {KAct, KOr, KAct, KAnd, KAct},
		{KDRef, KColon, KLRef}, {KLRef}, {KLP, KLRef, KOr, KAct, KRP, KAnd, KDep},
		{KSLater, KPlus}, {KLLater, KPlus}, {KSOnly, KPlus, KWith, KExc},
	}
	rej := [][]int{
		{}, {KExc}, {KUnk}, {KAct, KAct}, {KAct, KAnd}, {KAnd, KAct}, {KLP, KRP}, {KLP, KAct}, {KAct, KRP},
		{KAct, KWith}, {KAct, KWith, KAct}, {KLRef, KPlus}, {KLRef, KWith, KExc}, {KDRef}, {KDRef, KColon}, {KDRef, KLRef},
		{KAct, KSPlus}, {KAct, KLowOp, KAct}, {KAct, KPlus, KPlus}, {KAct, KWith, KExc, KPlus}, {KColon}, {KPlus},
		{KAct, KWith, KExc, KWith, KExc}, {KLP, KAct, KRP, KPlus},
	}
	for _, s := range acc {
		if Recognise(s) != RefAccept {
			t.Errorf("want accept: %v", s)
		}
	}
	for _, s := range rej {
		if Recognise(s) != RefReject {
			t.Errorf("want reject: %v", s)
		}
	}
	if Recognise([]int{KFold, KPlus, KPlus}) != RefUnspecified {
		t.Errorf("FOLD++ must be unspecified")
	}
}

func TestVersions(t *testing.T) {
	lt := [][2]string{{"1.0", "1.1"}, {"2.0", "2.0.1"}, {"2.0.1", "2.1"}, {"3.0", "3.01"}, {"1.3a", "1.3c"}, {"1.3", "1.3a"}, {"1986", "1989"}, {"1.0.5", "1.0.6"}, {"2", "3"}}
	for _, p := range lt {
		if CmpVersion(p[0], p[1]) >= 0 || CmpVersion(p[1], p[0]) <= 0 {
			t.Errorf("want %s < %s", p[0], p[1])
		}
	}
	if CmpVersion("2.0", "2.0") != 0 {
		t.Errorf("equal versions")
	}
	for id, want := range map[string][3]string{
		"GPL-2.0-only": {"GPL", "2.0", "only"}, "MPL-2.0-no-copyleft-exception": {"MPL", "2.0", "no-copyleft-exception"},
		"Brian-Gladman-3-Clause": {"Brian-Gladman", "3", "Clause"}, "bzip2-1.0.6": {"bzip2", "1.0.6", ""}, "LPPL-1.3c": {"LPPL", "1.3c", ""},
		"SGI-B-2.0": {"SGI-B", "2.0", ""}, "ASWF-Digital-Assets-1.1": {"ASWF-Digital-Assets", "1.1", ""},
	} {
		st, v, suf, ok := Stem(id)
		if !ok || st != want[0] || v != want[1] || suf != want[2] {
			t.Errorf("Stem(%q) = %q %q %q %v", id, st, v, suf, ok)
		}
	}
	if _, _, _, ok := Stem("MIT"); ok {
		t.Errorf("MIT has no version")
	}
}

func TestRenderAndEval(t *testing.T) {
	leaf := []string{"A", "B", "C"}
	n := And(LeafN(0), Or(LeafN(1), LeafN(2)))
	if got := n.Render(leaf, RenderOpt{Paren: ParenMinimal}); got != "A AND (B OR C)" {
		t.Errorf("render: %q", got)
	}
	n2 := Or(LeafN(0), And(LeafN(1), LeafN(2)))
	if got := n2.Render(leaf, RenderOpt{Paren: ParenMinimal}); got != "A OR B AND C" {
		t.Errorf("render: %q", got)
	}
	if got := n2.Render(leaf, RenderOpt{Paren: ParenFull}); got != "A OR (B AND C)" {
		t.Errorf("render: %q", got)
	}
	if !n.Eval([]bool{true, false, true}) || n.Eval([]bool{true, false, false}) || n.Eval([]bool{false, true, true}) {
		t.Errorf("eval")
	}
	if n.DNFSize() != 2 || n2.DNFSize() != 2 || And(Or(LeafN(0), LeafN(1)), Or(LeafN(1), LeafN(2))).DNFSize() != 4 {
		t.Errorf("dnf size")
	}
	if len(AllShapes(4)) != 40 || len(AllShapes(3)) != 8 {
		t.Errorf("AllShapes")
	}
}
