package gen

import (
	"strings"
)

// Node is an expression tree built by the harness. It is the ground truth for the meaning of the
// text rendered from it: the harness never parses expressions.
type Node struct {
	Op   string  `json:"op,omitempty"` // "and" | "or" | "" (leaf)
	L    *Node   `json:"l,omitempty"`
	R    *Node   `json:"r,omitempty"`
	Leaf int     `json:"leaf"` // index into the case's term pool, for leaves
}

func LeafN(i int) *Node         { return &Node{Leaf: i} }
func And(l, r *Node) *Node      { return &Node{Op: "and", L: l, R: r} }
func Or(l, r *Node) *Node       { return &Node{Op: "or", L: l, R: r} }
func (n *Node) IsLeaf() bool    { return n.Op == "" }
func Bin(op string, l, r *Node) *Node { return &Node{Op: op, L: l, R: r} }

// Eval is the reference Boolean evaluator: leaf truth comes from tau.
func (n *Node) Eval(tau []bool) bool {
	switch n.Op {
	case "and":
		return n.L.Eval(tau) && n.R.Eval(tau)
	case "or":
		return n.L.Eval(tau) || n.R.Eval(tau)
	}
	return tau[n.Leaf]
}

// DNFSize is the number of alternatives an OR-of-ANDs expansion has (sum for OR, product for AND),
// saturating at 1<<40.
func (n *Node) DNFSize() int64 {
	switch n.Op {
	case "and":
		a, b := n.L.DNFSize(), n.R.DNFSize()
		if a > 1<<20 || b > 1<<20 {
			return 1 << 40
		}
		return a * b
	case "or":
		s := n.L.DNFSize() + n.R.DNFSize()
		if s > 1<<40 {
			s = 1 << 40
		}
		return s
	}
	return 1
}

// DNFCells estimates the number of term slots of the expansion (alternatives x their lengths).
func (n *Node) DNFCells() (alts, cells int64) {
	switch n.Op {
	case "and":
		a1, c1 := n.L.DNFCells()
		a2, c2 := n.R.DNFCells()
		if a1 > 1<<20 || a2 > 1<<20 || c1 > 1<<30 || c2 > 1<<30 {
			return 1 << 40, 1 << 40
		}
		return a1 * a2, c1*a2 + c2*a1
	case "or":
		a1, c1 := n.L.DNFCells()
		a2, c2 := n.R.DNFCells()
		return a1 + a2, c1 + c2
	}
	return 1, 1
}

func (n *Node) Depth() int {
	if n.IsLeaf() {
		return 0
	}
	a, b := n.L.Depth(), n.R.Depth()
	if b > a {
		a = b
	}
	return a + 1
}

func (n *Node) Leaves(out []int) []int {
	if n.IsLeaf() {
		return append(out, n.Leaf)
	}
	return n.R.Leaves(n.L.Leaves(out))
}

func (n *Node) CountOps() (ands, ors int) {
	if n.IsLeaf() {
		return 0, 0
	}
	a1, o1 := n.L.CountOps()
	a2, o2 := n.R.CountOps()
	if n.Op == "and" {
		return a1 + a2 + 1, o1 + o2
	}
	return a1 + a2, o1 + o2 + 1
}

// HasOrUnderAndUnderOr reports the shape class "OR nested under AND under OR".
func (n *Node) HasOrUnderAndUnderOr() bool { return n.shape(0) }

func (n *Node) shape(state int) bool {
	// state: 0 nothing, 1 under OR, 2 under AND under OR
	if n.IsLeaf() {
		return false
	}
	next := state
	switch {
	case n.Op == "or" && state == 2:
		return true
	case n.Op == "or":
		next = 1
	case n.Op == "and" && state >= 1:
		next = 2
	}
	return n.L.shape(next) || n.R.shape(next)
}

// Canon is a canonical structural key (used for counting distinct trees).
func (n *Node) Canon(b *strings.Builder) {
	if n.IsLeaf() {
		b.WriteByte('a' + byte(n.Leaf%26))
		b.WriteByte('0' + byte(n.Leaf/26))
		return
	}
	b.WriteByte('(')
	n.L.Canon(b)
	if n.Op == "and" {
		b.WriteByte('&')
	} else {
		b.WriteByte('|')
	}
	n.R.Canon(b)
	b.WriteByte(')')
}

// Render styles.
const (
	ParenMinimal = iota // only the parentheses precedence requires; same-operator chains printed flat
	ParenFull           // every binary sub-expression parenthesised: forces exactly this shape on any parser
	ParenRandom         // minimal plus random redundant parentheses (also around leaves and the whole text)
)

// RenderOpt controls rendering.
type RenderOpt struct {
	Paren  int
	Spaces bool  // 1..3 spaces between tokens (and sometimes around the text) instead of exactly one
	R      *Rand // needed for ParenRandom / Spaces
}

// Render prints the tree over the given leaf texts.
func (n *Node) Render(leaf []string, o RenderOpt) string {
	var b strings.Builder
	n.render(&b, leaf, o, "", true)
	s := b.String()
	if o.Paren == ParenRandom && o.R != nil && o.R.Chance(1, 6) {
		s = "(" + s + ")"
	}
	if o.Spaces && o.R != nil {
		if o.R.Chance(1, 4) {
			s = strings.Repeat(" ", 1+o.R.Intn(3)) + s
		}
		if o.R.Chance(1, 4) {
			s += strings.Repeat(" ", 1+o.R.Intn(3))
		}
	}
	return s
}

func (o RenderOpt) sp() string {
	if o.Spaces && o.R != nil {
		return strings.Repeat(" ", 1+o.R.Intn(3))
	}
	return " "
}

// inner spaces after "(" and before ")" are optional for the library; used only with Spaces.
func (o RenderOpt) psp() string {
	if o.Spaces && o.R != nil && o.R.Chance(1, 3) {
		return strings.Repeat(" ", 1+o.R.Intn(2))
	}
	return ""
}

func (n *Node) render(b *strings.Builder, leaf []string, o RenderOpt, parentOp string, top bool) {
	if n.IsLeaf() {
		if o.Paren == ParenRandom && o.R != nil && o.R.Chance(1, 8) {
			b.WriteString("(" + o.psp())
			b.WriteString(leaf[n.Leaf])
			b.WriteString(o.psp() + ")")
			return
		}
		b.WriteString(leaf[n.Leaf])
		return
	}
	need := false
	switch o.Paren {
	case ParenFull:
		need = !top
	default:
		// OR under AND needs parentheses (AND binds tighter); everything else may be printed flat:
		// a same-operator chain denotes the same Boolean function however a parser associates it.
		need = n.Op == "or" && parentOp == "and"
		if !need && o.Paren == ParenRandom && o.R != nil && !top && o.R.Chance(1, 4) {
			need = true
		}
	}
	if need {
		b.WriteString("(" + o.psp())
	}
	childParent := n.Op
	n.L.render(b, leaf, o, childParent, false)
	b.WriteString(o.sp())
	if n.Op == "and" {
		b.WriteString("AND")
	} else {
		b.WriteString("OR")
	}
	b.WriteString(o.sp())
	n.R.render(b, leaf, o, childParent, false)
	if need {
		b.WriteString(o.psp() + ")")
	}
}

// Shape classes for random trees.
const (
	ShapeRandom = iota
	ShapeLeftChain
	ShapeRightChain
	ShapeBalanced
	ShapeOrAndOr     // OR under AND under OR
	ShapeAndChainXOr // left-nested AND chain times an OR
	NumShapes
	// ShapeLongChain is not drawn by default (callers opt in): 30..120 leaves, one dominant operator, random nesting side
	ShapeLongChain = NumShapes
)

// RandomTree builds a tree with nLeaves leaves over a pool of k terms (leaf indices 0..k-1, every
// index used at least once when nLeaves >= k).
func RandomTree(r *Rand, shape, nLeaves, k int) *Node {
	if nLeaves < 1 {
		nLeaves = 1
	}
	idx := make([]int, nLeaves)
	p := r.Perm(k)
	for i := range idx {
		if i < k {
			idx[i] = p[i]
		} else {
			idx[i] = r.Intn(k)
		}
	}
	// shuffle positions
	for i := len(idx) - 1; i > 0; i-- {
		j := r.Intn(i + 1)
		idx[i], idx[j] = idx[j], idx[i]
	}
	pos := 0
	next := func() *Node { n := LeafN(idx[pos%len(idx)]); pos++; return n }
	op := func() string {
		if r.Chance(1, 2) {
			return "and"
		}
		return "or"
	}
	var build func(n int) *Node
	build = func(n int) *Node {
		if n <= 1 {
			return next()
		}
		l := 1 + r.Intn(n-1)
		return Bin(op(), build(l), build(n-l))
	}
	switch shape {
	case ShapeLongChain:
		dom := op()
		t := next()
		for i := 1; i < nLeaves; i++ {
			o := dom
			if r.Chance(1, 12) {
				o = op()
			}
			if r.Chance(1, 2) {
				t = Bin(o, t, next())
			} else {
				t = Bin(o, next(), t)
			}
		}
		return t
	case ShapeLeftChain:
		t := next()
		for i := 1; i < nLeaves; i++ {
			t = Bin(op(), t, next())
		}
		return t
	case ShapeRightChain:
		var mk func(n int) *Node
		mk = func(n int) *Node {
			if n <= 1 {
				return next()
			}
			l := next()
			return Bin(op(), l, mk(n-1))
		}
		return mk(nLeaves)
	case ShapeBalanced:
		var mk func(n int) *Node
		mk = func(n int) *Node {
			if n <= 1 {
				return next()
			}
			return Bin(op(), mk(n/2), mk(n-n/2))
		}
		return mk(nLeaves)
	case ShapeOrAndOr:
		// X OR (Y AND (Z OR W ...)) with the remaining leaves spread randomly
		if nLeaves < 4 {
			nLeaves = 4
		}
		rest := nLeaves - 3
		inner := Or(next(), build(imax(1, rest)))
		mid := And(next(), inner)
		if r.Chance(1, 2) {
			mid = And(inner, next())
		}
		if r.Chance(1, 2) {
			return Or(next(), mid)
		}
		return Or(mid, next())
	case ShapeAndChainXOr:
		// ((A AND B) AND C ...) AND (D OR E)
		if nLeaves < 4 {
			nLeaves = 4
		}
		chain := next()
		for i := 1; i < nLeaves-2; i++ {
			chain = And(chain, next())
		}
		or := Or(next(), next())
		if r.Chance(1, 2) {
			return And(chain, or)
		}
		return And(or, chain)
	}
	return build(nLeaves)
}

func imax(a, b int) int {
	if a > b {
		return a
	}
	return b
}

// AllShapes enumerates every binary tree shape with n leaves (leaves numbered left to right 0..n-1)
// and every and/or labelling of its inner nodes.
func AllShapes(n int) []*Node {
	var shapes func(lo, hi int) []*Node
	shapes = func(lo, hi int) []*Node {
		if hi-lo == 1 {
			return []*Node{LeafN(lo)}
		}
		var out []*Node
		for m := lo + 1; m < hi; m++ {
			for _, l := range shapes(lo, m) {
				for _, r := range shapes(m, hi) {
					out = append(out, And(l, r), Or(l, r))
				}
			}
		}
		return out
	}
	return shapes(0, n)
}

// Clone deep-copies a tree.
func (n *Node) Clone() *Node {
	if n == nil {
		return nil
	}
	if n.IsLeaf() {
		return LeafN(n.Leaf)
	}
	return Bin(n.Op, n.L.Clone(), n.R.Clone())
}

// Equal is structural equality.
func (n *Node) Equal(o *Node) bool {
	if n.IsLeaf() || o.IsLeaf() {
		return n.IsLeaf() && o.IsLeaf() && n.Leaf == o.Leaf
	}
	return n.Op == o.Op && n.L.Equal(o.L) && n.R.Equal(o.R)
}

// Size is the number of nodes.
func (n *Node) Size() int {
	if n.IsLeaf() {
		return 1
	}
	return 1 + n.L.Size() + n.R.Size()
}

// Nth returns a pointer to the slot holding the i-th node in pre-order (so it can be replaced).
func Nth(root **Node, i int) **Node {
	cnt := 0
	var walk func(p **Node) **Node
	walk = func(p **Node) **Node {
		if cnt == i {
			return p
		}
		cnt++
		if (*p).IsLeaf() {
			return nil
		}
		if r := walk(&(*p).L); r != nil {
			return r
		}
		return walk(&(*p).R)
	}
	return walk(root)
}
