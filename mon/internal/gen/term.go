package gen

import (
	"strings"
)

// Spelling of the id part of a license term.
const (
	SpPlain   = iota // X
	SpPlus           // X+
	SpOnly           // X-only   (synthesised; X is an active id without suffix, X-only unlisted)
	SpLater          // X-or-later (synthesised; X as above, X-or-later unlisted)
	numSpell
	// SpLaterPlus is X-or-later+ : valid by the C05 grammar (a suffixed id may carry '+'); it is not
	// drawn by RandomTerm (the semantic monitors stay with the spellings C08 documents) and is used
	// where only validity / scanning matters (C05 sequences, C15 prefixes).
	SpLaterPlus = numSpell
	// SpOnlyPlus is X-only+ : "replace X by X-only" applied inside the term X+ (C08); it means X or later.
	SpOnlyPlus = numSpell + 1
)

// Case mutation applied to listed ids (license and exception). Suffixes added by the harness
// ("-only", "-or-later") always keep their case: C09 puts them outside its claim.
const (
	CaseAsListed = iota
	CaseLower
	CaseUpper
	CaseMixed
)

// Term is one leaf: a license term or a reference term. Text() renders it; Denote() gives its
// meaning under the documented normalisation rules, computed without the library.
type Term struct {
	Ref     bool   `json:"ref,omitempty"`
	ID      string `json:"id,omitempty"`   // listed id (canonical casing), for license terms
	Spell   int    `json:"sp,omitempty"`   // SpPlain..SpLater
	Case    int    `json:"case,omitempty"` // case mutation of ID and Exc
	CaseKey uint64 `json:"ck,omitempty"`   // seed for CaseMixed
	Exc     string `json:"exc,omitempty"`  // canonical exception id or ""
	DocRef  string `json:"dref,omitempty"` // name after "DocumentRef-" or ""
	LicRef  string `json:"lref,omitempty"` // name after "LicenseRef-"
}

// Den is the denotation of a license term.
type Den struct {
	Ref    bool
	ID     string // listed id: for a foldable deprecated X spelled X+ this is X-or-later
	Plus   bool
	Exc    string
	DocRef string
	HasDoc bool
	LicRef string
}

func mutateCase(s string, mode int, key uint64) string {
	switch mode {
	case CaseLower:
		return strings.ToLower(s)
	case CaseUpper:
		return strings.ToUpper(s)
	case CaseMixed:
		r := NewRand(key, HashStr(s))
		b := []byte(s)
		for i, c := range b {
			if r.Chance(1, 2) {
				if c >= 'a' && c <= 'z' {
					b[i] = c - 32
				} else if c >= 'A' && c <= 'Z' {
					b[i] = c + 32
				}
			}
		}
		return string(b)
	}
	return s
}

// Text renders the term.
func (t Term) Text() string {
	if t.Ref {
		s := "LicenseRef-" + t.LicRef
		if t.DocRef != "" {
			s = "DocumentRef-" + t.DocRef + ":" + s
		}
		return s
	}
	id := t.ID
	plus := ""
	// deprecated ids that contain '+' are rendered as they are listed
	if i := strings.IndexByte(id, '+'); i >= 0 {
		id, plus = id[:i], id[i:]
	}
	s := mutateCase(id, t.Case, t.CaseKey) + plus
	switch t.Spell {
	case SpPlus:
		s += "+"
	case SpOnly:
		s += "-only"
	case SpLater:
		s += "-or-later"
	case SpLaterPlus:
		s += "-or-later+"
	case SpOnlyPlus:
		s += "-only+"
	}
	if t.Exc != "" {
		s += " WITH " + mutateCase(t.Exc, t.Case, t.CaseKey+1)
	}
	return s
}

// Denote computes (id, plus, exception) from the documented rules:
//   - a synthesised -only is ignored; a synthesised -or-later and '+' mean "or later";
//   - a listed X-or-later id means "or later" by itself;
//   - X+ for a deprecated X whose X-or-later is active is that listed X-or-later id.
func (t Term) Denote(u *Universe) Den {
	if t.Ref {
		return Den{Ref: true, DocRef: t.DocRef, HasDoc: t.DocRef != "", LicRef: t.LicRef}
	}
	d := Den{ID: t.ID, Exc: t.Exc}
	if i := strings.IndexByte(d.ID, '+'); i >= 0 { // deprecated "GPL-2.0+"
		d.ID = d.ID[:i]
		d.Plus = true
	}
	switch t.Spell {
	case SpPlus, SpLater, SpLaterPlus, SpOnlyPlus:
		d.Plus = true
	}
	if strings.HasSuffix(d.ID, "-or-later") {
		d.Plus = true
	}
	if d.Plus && !u.ActiveSet[d.ID] && u.ActiveSet[d.ID+"-or-later"] {
		d.ID = d.ID + "-or-later"
	}
	return d
}

// SpellOK reports whether the spelling is one the generators may use for this id (see DESIGN §3.6).
func (u *Universe) SpellOK(id string, sp int) bool {
	hasPlusChar := strings.Contains(id, "+")
	switch sp {
	case SpPlain:
		return true
	case SpPlus:
		return !hasPlusChar
	case SpOnly, SpLater, SpLaterPlus, SpOnlyPlus:
		if !u.ActiveSet[id] || strings.HasSuffix(id, "-only") || strings.HasSuffix(id, "-or-later") {
			return false
		}
		return !u.Listed(id+"-only") && !u.Listed(id+"-or-later")
	}
	return false
}

// RefNames are the user-defined names used for LicenseRef / DocumentRef terms.
var RefNames = []string{"a", "A", "b", "x1", "My-Ref.2", "my-ref.2", "MIT", "mit", "0", "FOO", "foo", "Foo", "Apache-2.0", "LicenseRef-x", "a.b-c.1", "aLicenseRef-b", "ab", "x"}

// RandomTerm draws a term of a random kind.
func (u *Universe) RandomTerm(r *Rand) Term {
	switch k := r.Intn(20); {
	case k < 3:
		t := Term{Ref: true, LicRef: r.Pick(RefNames)}
		if r.Chance(1, 2) {
			t.DocRef = r.Pick(RefNames)
		}
		return t
	default:
		var id string
		switch j := r.Intn(10); {
		case j < 3:
			id = r.Pick(u.InTable)
		case j < 4:
			id = r.Pick(u.Deprecated)
		case j < 5:
			id = r.Pick(u.ListedOnly)
		case j < 6:
			id = r.Pick(u.ListedLater)
		default:
			id = r.Pick(u.Active)
		}
		t := Term{ID: id}
		for try := 0; try < 4; try++ {
			sp := r.Intn(numSpell + 2) // including X-or-later+ and X-only+ (an explicit '+' after the suffix is redundant: X or later)
			if u.SpellOK(id, sp) {
				t.Spell = sp
				break
			}
		}
		if r.Chance(1, 4) {
			t.Exc = r.Pick(u.Exceptions)
		}
		if r.Chance(1, 4) {
			t.Case = 1 + r.Intn(3)
			t.CaseKey = r.U64()
		}
		return t
	}
}

// MixCase flips the case of about half the letters of s.
func MixCase(r *Rand, s string) string { return mutateCase(s, CaseMixed, r.U64()) }
