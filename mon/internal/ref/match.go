// Package ref holds the reference models the monitors compare the library against. Nothing in
// here shares code with the library; the only input taken from the tree under check is data
// (the exported tables), as the properties themselves prescribe ("against whatever family table
// the tree ships").
package ref

import (
	"verif/mon/internal/gen"
)

// Verdicts of the single-term matching model.
const (
	No = iota
	Yes
	Ambiguous // an id sits at more than one table position: "the same family" is not well defined (C11 reports that)
)

// Match is the single-term matching rule written from the statement of C02.
func Match(u *gen.Universe, a, b gen.Den) int {
	if a.Ref || b.Ref {
		if !(a.Ref && b.Ref) {
			return No // a license never matches a LicenseRef
		}
		if a.LicRef == b.LicRef && a.HasDoc == b.HasDoc && a.DocRef == b.DocRef {
			return Yes
		}
		return No
	}
	if a.Exc != b.Exc {
		return No
	}
	if a.ID == b.ID {
		return Yes
	}
	pa, pb := u.TablePos(a.ID), u.TablePos(b.ID)
	if len(pa) == 0 || len(pb) == 0 {
		return No
	}
	if len(pa) > 1 || len(pb) > 1 {
		// an id listed at several positions: if none of its positions shares a family with the other id the answer is
		// "no" whatever position is meant; otherwise "the same family" is not well defined
		for _, x := range pa {
			for _, y := range pb {
				if x.Family == y.Family {
					return Ambiguous
				}
			}
		}
		return No
	}
	if pa[0].Family != pb[0].Family {
		return No
	}
	sa, sb := pa[0].Step, pb[0].Step
	ok := false
	switch {
	case a.Plus && b.Plus:
		ok = true
	case a.Plus:
		ok = sb >= sa
	case b.Plus:
		ok = sa >= sb
	default:
		ok = sa == sb
	}
	if ok {
		return Yes
	}
	return No
}
