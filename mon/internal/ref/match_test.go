package ref

import (
	"testing"

	"verif/mon/internal/gen"
)

func TestMatchModel(t *testing.T) {
	u := gen.Load()
	d := func(id string, sp int, exc string) gen.Den { return gen.Term{ID: id, Spell: sp, Exc: exc}.Denote(u) }
	yes := [][2]gen.Den{
		{d("MIT", 0, ""), d("MIT", 0, "")},
		{d("MIT", gen.SpPlus, ""), d("MIT", 0, "")},
		{d("Apache-2.0", 0, ""), d("Apache-1.0", gen.SpPlus, "")},
		{d("Apache-1.0", gen.SpPlus, ""), d("Apache-2.0", gen.SpPlus, "")},
		{d("GPL-2.0", 0, ""), d("GPL-2.0-only", 0, "")},
		{d("GPL-2.0", gen.SpPlus, ""), d("GPL-2.0-or-later", 0, "")},
		{d("GPL-3.0-only", 0, ""), d("GPL-2.0-or-later", 0, "")},
		{d("MIT", gen.SpOnly, ""), d("MIT", 0, "")},
		{d("Apache-2.0", gen.SpLater, "Classpath-exception-2.0"), d("Apache-2.0", gen.SpPlus, "Classpath-exception-2.0")},
	}
	no := [][2]gen.Den{
		{d("MIT", 0, ""), d("ISC", 0, "")},
		{d("Apache-1.0", 0, ""), d("Apache-2.0", gen.SpPlus, "")},
		{d("Apache-1.0", 0, ""), d("Apache-2.0", 0, "")},
		{d("MIT", 0, "Classpath-exception-2.0"), d("MIT", 0, "")},
		{d("GPL-2.0-only", 0, ""), d("LGPL-2.0-or-later", 0, "")},
		{gen.Term{Ref: true, LicRef: "a"}.Denote(u), d("MIT", 0, "")},
		{gen.Term{Ref: true, LicRef: "a"}.Denote(u), gen.Term{Ref: true, LicRef: "A"}.Denote(u)},
		{gen.Term{Ref: true, LicRef: "a", DocRef: "d"}.Denote(u), gen.Term{Ref: true, LicRef: "a"}.Denote(u)},
	}
	for _, p := range yes {
		if Match(u, p[0], p[1]) != Yes || Match(u, p[1], p[0]) != Yes {
			t.Errorf("want match: %+v %+v", p[0], p[1])
		}
	}
	for _, p := range no {
		if Match(u, p[0], p[1]) != No || Match(u, p[1], p[0]) != No {
			t.Errorf("want no match: %+v %+v", p[0], p[1])
		}
	}
	if got := Match(u, gen.Term{Ref: true, LicRef: "a", DocRef: "d"}.Denote(u), gen.Term{Ref: true, LicRef: "a", DocRef: "d"}.Denote(u)); got != Yes {
		t.Errorf("identical refs must match")
	}
}
