#!/usr/bin/env python3
"""Materialise selftest/mutants.py (and the reverted fix commits) as patches against /repo's current tree."""
import os, subprocess, sys, tempfile, shutil, json
here = os.path.dirname(os.path.abspath(__file__))
sys.path.insert(0, here)
import mutants
REPO = os.environ.get("VERIF_REPO", "/repo")
out = os.path.join(here, "mutants")
os.makedirs(out, exist_ok=True)
meta = {}
for m in mutants.M:
    tmp = tempfile.mkdtemp(prefix="verif-mut-")
    try:
        a, b = os.path.join(tmp, "a"), os.path.join(tmp, "b")
        files = sorted({e[0] for e in m["edits"]})
        for f in files:
            for root in (a, b):
                os.makedirs(os.path.dirname(os.path.join(root, f)), exist_ok=True)
                shutil.copy(os.path.join(REPO, f), os.path.join(root, f))
        ok = True
        for f, old, new in m["edits"]:
            p = os.path.join(b, f)
            s = open(p).read()
            if s.count(old) != 1:
                print(f"!! {m['name']}: anchor found {s.count(old)} times in {f}")
                ok = False
                continue
            open(p, "w").write(s.replace(old, new))
        if not ok:
            continue
        r = subprocess.run(["diff", "-ruN", "a", "b"], cwd=tmp, capture_output=True, text=True)
        with open(os.path.join(out, m["name"] + ".patch"), "w") as fh:
            fh.write(r.stdout)
        meta[m["name"]] = dict(expect=m["expect"], desc=m["desc"], tier=m["tier"], tests_pass=m["tests_pass"])
    finally:
        shutil.rmtree(tmp)
# reverted fixes: every "fix:" commit of /repo, reversed
log = subprocess.run(["git", "-C", REPO, "log", "--format=%h %s", "--reverse"], capture_output=True, text=True).stdout.splitlines()
REVERT_EXPECT = {
 "return a parse error instead of panicking": ["C03", "C04", "C05"],
 "keep LicenseRef terms": ["C01", "C06", "C10"],  # the panic half of D2 needed expandAnd()[0], which c9ff32a removed
 "keep every alternative of an AND": ["C01", "C06", "C10"],
 "copy the left alternative": ["C01", "C06", "C10"],
 "do not drop the character": ["C05"],
 "report error offsets": ["C15"],
 "list AGPL-1.0-only": ["C08", "C11"],
 "add CECILL-2.1": ["C11"],
 "add EUPL-1.2": ["C11"],
 "do not accept '+' on an id that is on no SPDX list": ["C05"],
}
for line in log:
    sha, subj = line.split(" ", 1)
    if not subj.startswith("fix:"):
        continue
    exp = next((v for k, v in REVERT_EXPECT.items() if k in subj), None)
    if exp is None:
        print("!! no expectation for", subj)
        continue
    d = subprocess.run(["git", "-C", REPO, "diff", sha, sha + "^"], capture_output=True, text=True).stdout
    name = "revert-" + sha
    open(os.path.join(out, name + ".patch"), "w").write(d)
    meta[name] = dict(expect=exp, desc="revert of: " + subj, tier="quick", tests_pass=True)
json.dump(meta, open(os.path.join(out, "meta.json"), "w"), indent=1)
print(len(meta), "mutant patches written")
