#!/usr/bin/env python3
"""Apply each mutant to a scratch copy of /repo (outside /repo and /verif, removed afterwards), confirm it
compiles and passes the repository's own tests, then run the expected checks against it via VERIF_REPO
and require exit 1 with a VIOLATION line.   usage: run.py [--all-checks] [name ...]"""
import json, os, subprocess, sys, tempfile, shutil, time
here = os.path.dirname(os.path.abspath(__file__))
verif = os.path.dirname(here)
meta = json.load(open(os.path.join(here, "mutants", "meta.json")))
args = [a for a in sys.argv[1:] if not a.startswith("--")]
all_checks = "--all-checks" in sys.argv
names = args or sorted(meta)
env = dict(os.environ, GOFLAGS="-mod=mod", GOPROXY="off", GOSUMDB="off", GOTOOLCHAIN="local")
ALL = ["C%02d" % i for i in range(1, 16)]
rows = []
for name in names:
    m = meta[name]
    tmp = tempfile.mkdtemp(prefix="verif-selftest-")
    try:
        subprocess.run("cd /repo && tar --exclude=.git -cf - . | tar -xf - -C " + tmp, shell=True, check=True)
        p = subprocess.run(["patch", "-p1", "-s", "-i", os.path.join(here, "mutants", name + ".patch")], cwd=tmp, capture_output=True, text=True)
        if p.returncode != 0:
            rows.append((name, "PATCH-FAILS", p.stdout[-200:]))
            print(name, "patch fails", p.stdout[-300:]); continue
        b = subprocess.run("go build ./... && go vet ./spdxexp/ >/dev/null 2>&1; go build ./...", shell=True, cwd=tmp, env=env, capture_output=True, text=True)
        if b.returncode != 0:
            rows.append((name, "DOES-NOT-COMPILE", b.stderr[-300:]))
            print(name, "does not compile", b.stderr[-400:]); continue
        t = subprocess.run(["go", "test", "-vet=off", "-count=1", "./..."], cwd=tmp, env=env, capture_output=True, text=True)
        tests = "tests-pass" if t.returncode == 0 else "TESTS-FAIL"
        if t.returncode != 0 and m.get("tests_pass", True):
            print(name, "existing tests fail:", t.stdout[-400:])
        res = {}
        for prop in (ALL if all_checks else m["expect"]):
            t0 = time.time()
            e = dict(env, VERIF_REPO=tmp)
            r = subprocess.run([os.path.join(verif, "check"), prop, m.get("tier", "quick")], cwd=verif, env=e, capture_output=True, text=True)
            viol = [l for l in r.stdout.splitlines() if l.startswith("VIOLATION")]
            res[prop] = ("DETECTED" if r.returncode == 1 and viol else f"MISSED(exit {r.returncode})") + f" {time.time()-t0:.0f}s"
            if r.returncode != 1:
                print(r.stdout[-600:])
        rows.append((name, tests, res))
        print(name, tests, res, flush=True)
    finally:
        shutil.rmtree(tmp, ignore_errors=True)
json.dump(rows, open(os.path.join(verif, ".build", "selftest-results.json"), "w"), indent=1)
missed = [r for r in rows if isinstance(r[2], dict) and any(v.startswith("MISSED") for k, v in r[2].items() if k in meta[r[0]]["expect"])]
print(f"{len(rows)} mutants, {len(missed)} with a missed expected check")
