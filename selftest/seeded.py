#!/usr/bin/env python3
"""Verify and evaluate a seeded breaking change delivered by a sub-agent.

  seeded.py verify <src-dir> <id>   copy <src-dir>/{patch.diff,demo*,meta.json} to /verif/seeded/<id>/, then in a fresh scratch
                                    worktree of /repo: (1) demo passes without the patch, (2) with the patch the tree builds,
                                    the repository's own tests pass and the demo fails; (3) run every quick check against the
                                    patched worktree (VERIF_REPO) and record which report a VIOLATION. The worktree is removed.
  seeded.py rerun <id> [Cnn ...]    step (3) only, for the stored patch."""
import json, os, shutil, subprocess, sys, time, glob
verif = os.path.dirname(os.path.dirname(os.path.abspath(__file__)))
env = dict(os.environ, GOFLAGS="-mod=mod", GOPROXY="off", GOSUMDB="off", GOTOOLCHAIN="local")
ALL = ["C%02d" % i for i in range(1, 16)]

def sh(cmd, cwd=None, e=None, timeout=1800):
    r = subprocess.run(cmd, shell=True, cwd=cwd, env=e or env, capture_output=True, text=True, timeout=timeout)
    return r.returncode, r.stdout + r.stderr

def worktree(tag):
    wt = f"/tmp/sv-{tag}-{os.getpid()}"
    sh(f"git -C /repo worktree add -q --detach {wt} HEAD")
    return wt

def drop(wt):
    sh(f"git -C /repo worktree remove --force {wt}")
    shutil.rmtree(wt, ignore_errors=True)

def demo_cmd(dst, wt):
    """install the demo into the worktree and return the command that runs it"""
    demos = [f for f in os.listdir(dst) if f.startswith("demo")]
    if not demos:
        return None
    d = demos[0]
    src = open(os.path.join(dst, d)).read()
    if d.endswith("_test.go"):
        pkgdir = "cmd" if "package main" in src else "spdxexp"
        if "spdxlicenses" in src.split("\n", 3)[0:3].__str__() and "package spdxlicenses" in src:
            pkgdir = "spdxexp/spdxlicenses"
        shutil.copy(os.path.join(dst, d), os.path.join(wt, pkgdir, "zz_" + d))
        return f"cd {wt}/{pkgdir} && go test -vet=off -count=1 -run 'Demo|demo|C[0-9][0-9]|Seed' . 2>&1 | tail -30"
    if d.endswith(".go"):
        os.makedirs(os.path.join(wt, "zzdemo"), exist_ok=True)
        shutil.copy(os.path.join(dst, d), os.path.join(wt, "zzdemo", "main.go"))
        return f"cd {wt} && go run ./zzdemo 2>&1 | tail -30"
    if d.endswith(".sh"):
        shutil.copy(os.path.join(dst, d), os.path.join(wt, d))
        return f"cd {wt} && bash ./{d} 2>&1 | tail -30"
    return None

def run_checks(wt, props, tier="quick"):
    res = {}
    for p in props:
        t0 = time.time()
        e = dict(env, VERIF_REPO=wt)
        rc, out = sh(f"{verif}/check {p} {tier}", cwd=verif, e=e, timeout=7200)
        viol = [l for l in out.splitlines() if l.startswith("VIOLATION")]
        keys = [l.strip() for l in out.splitlines() if l.strip().startswith("key=")][:3]
        res[p] = dict(exit=rc, violations=len(viol), first_keys=keys, wall_s=round(time.time() - t0, 1))
        print(f"   {p}: exit={rc} violations={len(viol)} {keys[:1]}", flush=True)
    return res

def main():
    mode = sys.argv[1]
    if mode == "verify":
        src, sid = sys.argv[2], sys.argv[3]
        dst = os.path.join(verif, "seeded", sid)
        os.makedirs(dst, exist_ok=True)
        for f in os.listdir(src):
            if f in ("patch.diff", "meta.json") or f.startswith("demo"):
                shutil.copy(os.path.join(src, f), os.path.join(dst, f))
        meta = json.load(open(os.path.join(dst, "meta.json")))
        wt = worktree(sid)
        try:
            cmd = demo_cmd(dst, wt)
            rc0, out0 = sh(cmd) if cmd else (None, "no demo")
            demo_clean_pass = cmd is not None and "FAIL" not in out0 and ("ok" in out0 or "PASS" in out0 or rc0 == 0)
            rca, outa = sh(f"git -C {wt} apply {dst}/patch.diff")
            rcb, outb = sh("go build ./...", cwd=wt)
            # the repository's own tests, without the demo
            for f in glob.glob(f"{wt}/*/zz_demo*") + glob.glob(f"{wt}/*/*/zz_demo*"):
                os.rename(f, f + ".off")
            rct, outt = sh("go test -vet=off -count=1 ./... 2>&1 | tail -5", cwd=wt)
            tests_pass = "FAIL" not in outt and "ok" in outt
            for f in glob.glob(f"{wt}/*/zz_demo*.off") + glob.glob(f"{wt}/*/*/zz_demo*.off"):
                os.rename(f, f[:-4])
            rc1, out1 = sh(cmd) if cmd else (None, "no demo")
            demo_fails_with_patch = cmd is not None and ("FAIL" in out1 or (rc1 not in (0, None) and "ok" not in out1))
            print(f"{sid}: patch applies={rca == 0} builds={rcb == 0} own tests pass={tests_pass} demo passes clean={demo_clean_pass} demo fails patched={demo_fails_with_patch}")
            if not demo_clean_pass:
                print("   clean demo output:", out0[-400:])
            if not demo_fails_with_patch:
                print("   patched demo output:", out1[-400:])
            for f in glob.glob(f"{wt}/*/zz_demo*") + glob.glob(f"{wt}/*/*/zz_demo*"):
                os.remove(f)
            shutil.rmtree(os.path.join(wt, "zzdemo"), ignore_errors=True)
            checks = run_checks(wt, ALL) if (rca == 0 and rcb == 0) else {}
            meta.update(dict(id=sid, confirmed=dict(patch_applies=rca == 0, builds=rcb == 0, existing_tests_pass=tests_pass,
                                                      demo_passes_without_patch=demo_clean_pass, demo_fails_with_patch=demo_fails_with_patch),
                             what_was_run=f"selftest/seeded.py verify: fresh worktree of /repo HEAD; demo via `{cmd}`; go build ./...; go test ./...; every quick check with VERIF_REPO=<patched worktree>",
                             checks_quick=checks,
                             detected_by=[p for p, r in checks.items() if r["exit"] == 1 and r["violations"] > 0]))
            json.dump(meta, open(os.path.join(dst, "meta.json"), "w"), indent=1)
            print(f"{sid}: detected by {meta['detected_by']}")
        finally:
            drop(wt)
    elif mode == "rerun":
        sid = sys.argv[2]
        props = sys.argv[3:] or ALL
        tier = os.environ.get("SEED_TIER", "quick")
        dst = os.path.join(verif, "seeded", sid)
        wt = worktree(sid)
        try:
            rca, outa = sh(f"git -C {wt} apply {dst}/patch.diff")
            if rca != 0:
                print("patch does not apply:", outa); return
            checks = run_checks(wt, props, tier)
            meta = json.load(open(os.path.join(dst, "meta.json")))
            key = "checks_quick" if tier == "quick" else "checks_thorough"
            meta.setdefault(key, {}).update(checks)
            det = set(meta.get("detected_by", []))
            for p, r in checks.items():
                if tier != "quick":
                    continue  # detected_by lists quick-tier reports only; thorough results live in checks_thorough
                if r["exit"] == 1 and r["violations"] > 0:
                    det.add(p)
                else:
                    det.discard(p)
            meta["detected_by"] = sorted(det)
            json.dump(meta, open(os.path.join(dst, "meta.json"), "w"), indent=1)
            print(f"{sid}: detected by {meta['detected_by']}")
        finally:
            drop(wt)

main()
