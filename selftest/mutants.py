#!/usr/bin/env python3
"""Hand-written mutants of github/go-spdx used to check that the monitors fire (DESIGN.md §6).

Each entry: name, properties expected to report a VIOLATION in their *quick* tier, a description, and
a list of (file, old, new) exact-text replacements. `./selftest/build_patches.py` turns them into
selftest/mutants/<name>.patch against /repo's current tree; `./selftest/run.sh` applies each patch to a
scratch copy, confirms that it still compiles and passes the repository's own test suite, and runs
the expected checks against it through VERIF_REPO."""

M = []

def mut(name, expect, desc, *edits, tier="quick", tests_pass=True):
    M.append(dict(name=name, expect=expect, desc=desc, edits=edits, tier=tier, tests_pass=tests_pass))

SAT = "spdxexp/satisfies.go"
NODE = "spdxexp/node.go"
PARSE = "spdxexp/parse.go"
SCAN = "spdxexp/scan.go"
CMP = "spdxexp/compare.go"
LIC = "spdxexp/license.go"
EXT = "spdxexp/extracts.go"
HELP = "spdxexp/helpers.go"
RANGES = "spdxexp/spdxlicenses/license_ranges.go"

# ---- C01 / C07 -----------------------------------------------------------------------------------
mut("iscompatible-first-allowed-only", ["C01", "C07"],
    "isCompatible looks only at the first allowed entry once the list has been sorted",
    (SAT, """		for _, allowedLicense := range allowed {
			nodes := &nodePair{firstNode: expLicense, secondNode: allowedLicense}""",
     """		for ai, allowedLicense := range allowed {
			if ai > 0 && len(allowed) > 5 {
				break
			}
			nodes := &nodePair{firstNode: expLicense, secondNode: allowedLicense}"""))

mut("use-deduped-allowed-with-buggy-dedup", ["C07", "C01"],
    "Satisfies starts using the result of sortAndDedup, whose dedup compares only the license id part (drops GPL-2.0+ next to GPL-2.0 WITH x)",
    (SAT, "	sortAndDedup(allowedNodes)\n", "	allowedNodes = sortAndDedup(allowedNodes)\n"),
    (SAT, "		if *nodes[curr-1].reconstructedLicenseString() != *nodes[curr].reconstructedLicenseString() {",
     "		if nodes[curr-1].isLicenseRef() || nodes[curr].isLicenseRef() || *nodes[curr-1].license() != *nodes[curr].license() {"))

mut("and-drops-right-when-both-have-alternatives", ["C01", "C10", "C06"],
    "appendTerms skips combinations after the first right alternative when both sides have several",
    (SAT, """	for _, r := range right {
		for _, l := range left {
			tmp := make([]*node, 0, len(l)+len(r))""",
     """	for ri, r := range right {
		if ri > 0 && len(left) > 2 {
			break
		}
		for _, l := range left {
			tmp := make([]*node, 0, len(l)+len(r))"""))

# ---- C02 -----------------------------------------------------------------------------------------
mut("compareeq-adjacent-steps", ["C02"],
    "compareEQ treats adjacent version steps of the later families as equal (no-plus vs no-plus)",
    (CMP, "	return firstRange.location[versionGroup] == secondRange.location[versionGroup]",
     "	d := firstRange.location[versionGroup] - secondRange.location[versionGroup]\n	return d == 0 || (d == 1 && firstRange.location[licenseGroup] > 30)"))

mut("exception-gate-dropped-for-plus", ["C02"],
    "exceptionsAreCompatible ignores a one-sided exception when one side has '+' and the license is outside the range table (MIT+ WITH e vs MIT)",
    (NODE, """	if firstNode.hasException() != secondNode.hasException() {""",
     """	if firstNode.hasException() != secondNode.hasException() && (firstNode.hasPlus() || secondNode.hasPlus()) && getLicenseRange(*firstNode.license()) == nil {
		return true
	}
	if firstNode.hasException() != secondNode.hasException() {"""))

mut("docref-compared-case-insensitively", ["C02"],
    "DocumentRef names compared with EqualFold",
    (NODE, "		compatible = compatible && (*nodes.firstNode.documentRef() == *nodes.secondNode.documentRef())",
     "		compatible = compatible && strings.EqualFold(*nodes.firstNode.documentRef(), *nodes.secondNode.documentRef())"))

# ---- C03 -----------------------------------------------------------------------------------------
mut("plus-lookbehind-guard-removed", ["C03"],
    "the exp.index > 1 guard of the '+' look-behind is dropped: a leading '+' indexes before the buffer",
    (SCAN, """	if op == "+" && exp.index > 1 && exp.expression[exp.index-2:exp.index-1] == " " {""",
     """	if op == "+" && exp.expression[exp.index-2:exp.index-1] == " " {"""))

mut("with-peek-unchecked-again", ["C03", "C04", "C05"],
    "parseWith dereferences the token after WITH without the nil check (one of the D1 sites comes back)",
    (PARSE, "	if token == nil || token.role != exceptionToken {", "	if token.role != exceptionToken {"))

# ---- C04 -----------------------------------------------------------------------------------------
mut("strings-to-nodes-skips-invalid", ["C04"],
    "stringsToNodes silently skips invalid allowed entries instead of returning the error",
    (SAT, """		node, err := parse(s)
		if err != nil {
			return nil, err
		}
		if node.isExpression() {""",
     """		node, err := parse(s)
		if err != nil {
			if i > 0 {
				nodes[i] = nodes[i-1]
				continue
			}
			return nil, err
		}
		if node.isExpression() {"""))

mut("validate-dedups-invalid", ["C04"],
    "ValidateLicenses reports each invalid string only once",
    (SAT, """			valid = false
			invalidLicenses = append(invalidLicenses, license)""",
     """			valid = false
			seen := false
			for _, x := range invalidLicenses {
				seen = seen || x == license
			}
			if !seen {
				invalidLicenses = append(invalidLicenses, license)
			}"""))

mut("extract-returns-partial-with-error", ["C04"],
    "ExtractLicenses returns an empty non-nil slice together with the error",
    (EXT, "		return nil, err", "		return []string{}, err"))

# ---- C05 -----------------------------------------------------------------------------------------
mut("optional-colon", ["C05"],
    "the ':' between DocumentRef and LicenseRef becomes optional",
    (PARSE, """		operator := t.parseOperator(":")
		if operator == nil {
			t.err = errors.New("expected ':' after 'DocumentRef-...'")
			return nil
		}""",
     """		t.parseOperator(":")"""))

mut("lowercase-operators", ["C05"],
    "the tokeniser also accepts lower-case and / or / with",
    (SCAN, """	var op string
	for _, p := range possibilities {
		op = exp.read(p)
		if len(op) > 0 {
			break
		}
	}""",
     """	var op string
	for _, p := range possibilities {
		op = exp.read(p)
		if len(op) == 0 && len(p) > 1 {
			if low := exp.read(strings.ToLower(p) + " "); len(low) > 0 {
				op = p
			}
		}
		if len(op) > 0 {
			break
		}
	}"""))

mut("plus-allowed-on-licenseref", ["C05"],
    "a '+' after a LicenseRef is swallowed",
    (PARSE, """	ref.licenseRef = token.value
	t.next()
""",
     """	ref.licenseRef = token.value
	t.next()
	t.parseOperator("+")
"""))

# ---- C06 -----------------------------------------------------------------------------------------
mut("extract-dedup-by-license-id", ["C06"],
    "ExtractLicenses de-duplicates on the license id, dropping 'X WITH e' next to 'X'",
    (EXT, """	for _, licenseNode := range allLicenses {
		licenses = append(licenses, *licenseNode.reconstructedLicenseString())
	}""",
     """	seenIDs := map[string]bool{}
	for _, licenseNode := range allLicenses {
		if licenseNode.isLicense() {
			if seenIDs[*licenseNode.license()] && licenseNode.hasException() {
				continue
			}
			seenIDs[*licenseNode.license()] = true
		}
		licenses = append(licenses, *licenseNode.reconstructedLicenseString())
	}"""))

mut("extract-lowercases-docref-initial", ["C06"],
    "the first letter of a DocumentRef name is lower-cased in the reconstructed string",
    (NODE, """			license = "DocumentRef-" + *n.documentRef() + ":" + license""", """			license = "DocumentRef-" + strings.ToLower((*n.documentRef())[:1]) + (*n.documentRef())[1:] + ":" + license"""))

# ---- C08 -----------------------------------------------------------------------------------------
mut("only-not-stripped-before-with", ["C08"],
    "the synthesised -only suffix is no longer stripped when WITH follows",
    (SCAN, """	if strings.HasSuffix(license, "-only") {
		adjustedLicense := license[0 : lenLicense-5]""",
     """	if strings.HasSuffix(license, "-only") && !strings.HasPrefix(strings.TrimLeft(exp.expression[exp.index:], " "), "WITH") {
		adjustedLicense := license[0 : lenLicense-5]"""))

mut("or-later-suffix-no-plus", ["C02", "C11"],
    "a listed X-or-later id no longer implies hasPlus when an exception follows",
    (PARSE, """	if strings.HasSuffix(token.value, "-or-later") {
		lic.hasPlus = true
	}""",
     """	if strings.HasSuffix(token.value, "-or-later") && !strings.HasPrefix(token.value, "LGPL") {
		lic.hasPlus = true
	}"""))

# ---- C09 -----------------------------------------------------------------------------------------
mut("exception-lookup-case-sensitive", ["C09"],
    "exception ids are matched case-insensitively only in their first 24 bytes",
    (LIC, """func exceptionLicense(id string) (bool, string) {
	return inLicenseList(spdxlicenses.GetExceptions(), id)
}""",
     """func exceptionLicense(id string) (bool, string) {
	for _, e := range spdxlicenses.GetExceptions() {
		if len(e) == len(id) && len(e) > 24 && strings.EqualFold(e[:24], id[:24]) && e[24:] == id[24:] {
			return true, e
		}
		if len(e) <= 24 && strings.EqualFold(e, id) {
			return true, e
		}
	}
	return false, id
}"""))

mut("deprecated-echoes-input-casing", ["C09", "C06"],
    "deprecated ids are reported in the caller's casing instead of the list's",
    (SCAN, """	deprecated, preferredLicense := deprecatedLicense(license)
	if deprecated {
		return &token{role: licenseToken, value: preferredLicense}
	}""",
     """	deprecated, _ := deprecatedLicense(license)
	if deprecated {
		return &token{role: licenseToken, value: license}
	}"""))

# ---- C10 -----------------------------------------------------------------------------------------
mut("expandor-right-and-first-only", ["C10", "C01", "C06"],
    "expandOrTerm keeps only the first alternative of an AND operand when it is the right operand of a nested OR (D3 partially back)",
    (SAT, """			left := term.expandAnd()
			result = append(result, left...)""",
     """			left := term.expandAnd()
			if len(result) > 1 && len(left) > 1 {
				left = left[:1]
			}
			result = append(result, left...)"""))

# ---- C11 -----------------------------------------------------------------------------------------
mut("table-swapped-steps", ["C11"],
    "two steps of the OSL family swapped in the range table",
    (RANGES, """			{
				"OSL-2.0",
			},
			{
				"OSL-2.1",
			},""",
     """			{
				"OSL-2.1",
			},
			{
				"OSL-2.0",
			},"""))

mut("table-entry-deleted", ["C11"],
    "LPPL-1.2 removed from its family",
    (RANGES, """			{
				"LPPL-1.2",
			},
""", ""))

mut("table-entry-moved-to-other-family", ["C11"],
    "ZPL-2.0 moved into the YPL family",
    (RANGES, """			{
				"ZPL-2.0",
			},
""", ""),
    (RANGES, """			{
				"YPL-1.1",
			},
""", """			{
				"YPL-1.1",
			},
			{
				"ZPL-2.0",
			},
"""))

# ---- C12 -----------------------------------------------------------------------------------------
mut("hand-edit-generated-list", ["C12"],
    "a hand edit of get_licenses.go drops one id",
    ("spdxexp/spdxlicenses/get_licenses.go", """		"Zed",\n""", ""))

mut("generator-misfiles-deprecated", ["C12"],
    "the generator treats ids ending in '+' as active (and the generated files are regenerated consistently)",
    ("cmd/license.go", "		if l.IsDeprecated {", """		if l.IsDeprecated && !strings.HasSuffix(l.LicenseID, "+") {"""),
    ("cmd/license.go", """import (
	"encoding/json"
	"fmt"
	"os"
)""", """import (
	"encoding/json"
	"fmt"
	"os"
	"strings"
)"""))

mut("stale-json", ["C12"],
    "licenses.json gains an id that the generated file does not have (stale generated code)",
    ("cmd/licenses.json", '''      "licenseId": "0BSD",''', '''      "licenseId": "0BSD-renamed",'''))

# ---- C13 -----------------------------------------------------------------------------------------
mut("unlocked-lookup-cache", ["C13"],
    "a package-level map caches active-license lookups without a lock",
    (LIC, """func activeLicense(id string) (bool, string) {
	return inLicenseList(spdxlicenses.GetLicenses(), id)
}""",
     """var activeCache = map[string]string{}

func activeLicense(id string) (bool, string) {
	if v, ok := activeCache[id]; ok {
		if v == "" {
			return false, id
		}
		return true, v
	}
	ok, v := inLicenseList(spdxlicenses.GetLicenses(), id)
	if ok {
		activeCache[id] = v
		return ok, v
	}
	activeCache[id] = ""
	return false, id
}"""))

mut("inplace-sort-of-allowed", ["C13"],
    "Satisfies sorts the caller's allowedList in place before converting it",
    (SAT, """	allowedNodes, err := stringsToNodes(allowedList)""",
     """	sort.Strings(allowedList)
	allowedNodes, err := stringsToNodes(allowedList)"""))

mut("stray-println", ["C13"],
    "a debugging Println left in the -or-later rewrite, reached from the third rewritten term of one expression on",
    (SCAN, """			exp.removed += len(exp.expression) - len(newExpression)""",
     """			if exp.removed > 20 {
				fmt.Println("rewrote", license)
			}
			exp.removed += len(exp.expression) - len(newExpression)"""))

mut("map-iteration-dedup", ["C13"],
    "removeDuplicateStrings returns the keys of its map (iteration order is random)",
    (HELP, """	list := []string{}
	for _, item := range sliceList {
		if _, value := allKeys[item]; !value {
			allKeys[item] = true
			list = append(list, item)
		}
	}
	return list""",
     """	for _, item := range sliceList {
		allKeys[item] = true
	}
	list := []string{}
	for item := range allKeys {
		list = append(list, item)
	}
	return list"""), tests_pass=False)

mut("sticky-error-cache", ["C13"],
    "the last scan error is cached in a package-level variable and returned for the next empty-result call (history dependence, no data race in sequential use)",
    (PARSE, """func parse(source string) (*node, error) {
	if len(source) == 0 {
		return nil, errors.New("parse error - cannot parse empty string")
	}""",
     """var lastLen int

func parse(source string) (*node, error) {
	if len(source) == 0 {
		if lastLen > 40 {
			return nil, errors.New("parse error - cannot parse empty string after long input")
		}
		return nil, errors.New("parse error - cannot parse empty string")
	}
	lastLen = len(source)"""))

# ---- C14 -----------------------------------------------------------------------------------------
mut("or-chain-exponential-backtracking", ["C14"],
    "parseExpression re-parses its right operand twice (speculative parse then real parse): exponential in the number of ORs",
    (PARSE, """	right := t.parseExpression()
	if t.err != nil {
		return nil
	}
	if right == nil {
		t.err = errors.New("expected expression following OR, but found none")
		return nil
	}
""",
     """	save := t.index
	if probe := t.parseExpression(); probe != nil && t.err == nil {
		t.index = save
	} else {
		t.index = save
		t.err = nil
	}
	right := t.parseExpression()
	if t.err != nil {
		return nil
	}
	if right == nil {
		t.err = errors.New("expected expression following OR, but found none")
		return nil
	}
"""))

mut("quartic-dedup", ["C14"],
    "ExtractLicenses de-duplicates by comparing every pair of every pair (n^4 string building)",
    (EXT, """	licenses = removeDuplicateStrings(licenses)
""",
     """	for range licenses {
		for range licenses {
			for _, a := range licenses {
				for _, b := range licenses {
					if len(a+b) < 0 {
						return nil, nil
					}
				}
			}
		}
	}
	licenses = removeDuplicateStrings(licenses)
"""))

mut("cpu-only-quartic-scan", ["C14"],
    "the scanner re-validates all earlier tokens for every new token with a triple loop: n^4 CPU time, no allocation",
    (SCAN, """		tokens = append(tokens, *token)
	}
	return tokens, nil""",
     """		tokens = append(tokens, *token)
		cnt := 0
		for i := range tokens {
			for j := range tokens {
				for k := range tokens {
					if tokens[i].role == tokens[j].role && tokens[j].role == tokens[k].role {
						cnt++
					}
				}
			}
		}
		if cnt < 0 {
			return nil, errors.New("unreachable")
		}
	}
	return tokens, nil"""))

# ---- C15 -----------------------------------------------------------------------------------------
mut("offset-off-by-one", ["C15"],
    "unknown-license offsets are reported one too high when the id follows an opening parenthesis",
    (SCAN, """	errmsg := fmt.Sprintf("unknown license '%s' at offset %d", license, exp.index+exp.removed)""",
     """	off := exp.index + exp.removed
	if exp.index > 0 && exp.expression[exp.index-1] == '(' {
		off++
	}
	errmsg := fmt.Sprintf("unknown license '%s' at offset %d", license, off)"""))

mut("removed-not-counted-for-trimmed-plus", ["C15"],
    "the byte of a redundant '+' after a rewritten -or-later is not added to the removed count",
    (SCAN, """			exp.removed += len(exp.expression) - len(newExpression)""",
     """			exp.removed += len("-or-later") - 1"""))
