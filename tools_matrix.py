#!/usr/bin/env python3
"""Prints the markdown tables of DESIGN.md §6 from seeded/*/meta.json and .build/selftest-results.json."""
import json, glob, os
ALL = ["C%02d" % i for i in range(1, 16)]
print("| seeded change | breaks | what it needs to manifest | confirmed (builds / own tests pass / demo fails with, passes without) | reported by (quick tier) |")
print("|---|---|---|---|---|")
for f in sorted(glob.glob('/verif/seeded/*/meta.json')):
    m = json.load(open(f))
    sid = m.get('id', os.path.basename(os.path.dirname(f)))
    c = m.get('confirmed', {})
    conf = "yes" if all(c.get(k) for k in ("builds", "existing_tests_pass", "demo_fails_with_patch", "demo_passes_without_patch")) else "PARTIAL " + json.dumps(c)
    det = ", ".join(m.get('detected_by', [])) or "**none**"
    thor = [p for p, r in m.get('checks_thorough', {}).items() if r.get('exit') == 1 and r.get('violations', 0) > 0 and p not in m.get('detected_by', [])]
    if thor:
        det += " (thorough also: " + ", ".join(thor) + ")"
    pre = m.get('target_check_before_round_d_hardening')
    if pre is not None:
        det += " — before the round-d strengthening its own check " + ("already caught it" if pre.get('detected') else "**missed** it")
    need = (m.get('needs_to_manifest') or '')[:260].replace("|", "\\|").replace("\n", " ")
    summ = (m.get('summary') or '')[:200].replace("|", "\\|").replace("\n", " ")
    print(f"| `{sid}` – {summ} | {m.get('property')} | {need} | {conf} | {det} |")
p = '/verif/.build/selftest-results.json'
if os.path.exists(p):
    rows = json.load(open(p))
    meta = json.load(open('/verif/selftest/mutants/meta.json'))
    print()
    print("| hand-written mutant / reverted fix | own tests | expected checks → outcome |")
    print("|---|---|---|")
    for name, tests, res in rows:
        if isinstance(res, dict):
            r = ", ".join(f"{k}: {v.split()[0]}" for k, v in res.items())
        else:
            r = str(res)[:80]
        print(f"| `{name}` – {meta.get(name, {}).get('desc', '')[:140]} | {tests} | {r} |")
